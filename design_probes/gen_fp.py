import sys
def fp(v):
    import struct
    b = struct.unpack('<Q', struct.pack('<d', v))[0]
    s = format(b, '064b')
    return "(fp #b%s #b%s #b%s)" % (s[0], s[1:12], s[12:])
for count in (2,3):
    L = ["(set-logic QF_FPBV)", "(declare-const s (_ FloatingPoint 11 53))", "(declare-const eb (_ BitVec 64))",
         "(define-fun e () (_ FloatingPoint 11 53) ((_ to_fp 11 53) eb))",
         "(define-fun limit () (_ FloatingPoint 11 53) ((_ to_fp 11 53) (bvsub eb #x0000000000000001)))",
         "(assert (not (fp.isNaN s)))(assert (not (fp.isInfinite s)))(assert (not (fp.isNaN e)))(assert (not (fp.isInfinite e)))",
         "(assert (fp.geq s (_ +zero 11 53)))(assert (fp.lt s e))",
         "(define-fun step () (_ FloatingPoint 11 53) (fp.div RNE (fp.sub RNE e s) %s))" % fp(float(count+1)),
         "(define-fun fmin ((a (_ FloatingPoint 11 53)) (b (_ FloatingPoint 11 53))) (_ FloatingPoint 11 53) (ite (fp.lt b a) b a))"]
    names = ["s"]
    for k in range(1, count+1):
        L.append("(define-fun r%d () (_ FloatingPoint 11 53) (fmin (fp.add RNE s (fp.mul RNE step %s)) limit))" % (k, fp(float(k))))
        names.append("r%d" % k)
    names.append("limit")
    conj = " ".join("(fp.leq %s %s)" % (a, b) for a, b in zip(names, names[1:])) + " (fp.lt limit e)"
    L.append("(assert (not (and %s)))" % conj)
    L.append("(check-sat)")
    open("fpc_%d.smt2" % count, "w").write("\n".join(L) + "\n")
