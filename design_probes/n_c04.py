import sys, logging
sys.path.insert(0, '/verif/design_probes/shim'); sys.path.insert(0, '/repo/sandbox/grist')
logging.disable(logging.CRITICAL)
import engine as engine_mod, actions, useractions, objtypes
UA = useractions.from_repr
e = engine_mod.Engine(); e.load_empty()
ap = lambda *u: e.apply_user_actions([UA(list(x)) for x in u])
ap(["AddTable", "T", [{"id": "A", "type": "Int", "isFormula": False}, {"id": "D", "type": "Int", "isFormula": False, "formula": "$A+1"}]])
ap(["BulkAddRecord", "T", [None], {"A": [1]}])
td = e.fetch_table("_grist_Tables_column"); ref = {c: r for r, c in zip(td.row_ids, td.columns["colId"])}
before = e.fetch_table("_grist_Tables_column").columns["recalcDeps"]
for val in ("junk", ["L", "x"], 5):
    try:
        ap(["UpdateRecord", "_grist_Tables_column", ref["D"], {"recalcDeps": val}])
        print(val, "accepted ->", [objtypes.encode_object(v) for v in e.fetch_table("_grist_Tables_column").columns["recalcDeps"]])
    except Exception as ex:
        print(val, "RAISED", type(ex).__name__, ex, "| state now:", [objtypes.encode_object(v) for v in e.fetch_table("_grist_Tables_column").columns["recalcDeps"]])
    try:
        ag = ap(["Calculate"]); print("   Calculate ok", len(ag.stored))
    except Exception as ex:
        print("   Calculate RAISED", type(ex).__name__, ex)
