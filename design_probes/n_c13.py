import sys, logging, itertools, time, traceback, functools
sys.path.insert(0, '/verif/design_probes/shim'); sys.path.insert(0, '/repo/sandbox/grist')
logging.disable(logging.CRITICAL)
import engine as engine_mod, actions, useractions, objtypes
from numbers import Number
UA = useractions.from_repr
def enc(v): return objtypes.encode_object(v)
SPECS = [("", None), ("order_by='N'", ("N",)), ("order_by='-N'", ("-N",)), ("order_by=('S','-N')", ("S", "-N")), ("order_by=None", ()), ("sort_by='N'", "SORTBY:N"),
         ("sort_by='-S'", "SORTBY:-S"), ("order_by='id'", "ID"), ("order_by=('S','id')", "S,ID"), ("order_by='-manualSort'", ("-manualSort",))]
KEYS = [("K=$Q", lambda row, q: row["K"] == q), ("K=$Q, S='a'", lambda row, q: row["K"] == q and row["S"] == 'a'),
        ("CL=CONTAINS($Q)", lambda row, q: isinstance(row["CL"], list) and q in row["CL"][1:]),
        ("CL=CONTAINS($Q, match_empty='')", lambda row, q: (isinstance(row["CL"], list) and q in row["CL"][1:]) or (row["CL"] in (None, ['L']) and q == ''))]
def fixture(data):
    e = engine_mod.Engine(); e.load_empty()
    ap = lambda *u: e.apply_user_actions([UA(list(x)) for x in u])
    ap(["AddTable", "D", [{"id": "K", "type": "Text", "isFormula": False}, {"id": "S", "type": "Text", "isFormula": False}, {"id": "N", "type": "Int", "isFormula": False},
                          {"id": "CL", "type": "ChoiceList", "isFormula": False}]])
    cols = [{"id": "Q", "type": "Text", "isFormula": False}]
    for i, (k, _) in enumerate(KEYS):
        for j, (s, _) in enumerate(SPECS):
            args = ", ".join(x for x in (k, s) if x)
            cols.append({"id": "F%d_%d" % (i, j), "type": "Any", "isFormula": True, "formula": "list(D.lookupRecords(%s).id)" % args})
            cols.append({"id": "O%d_%d" % (i, j), "type": "Any", "isFormula": True, "formula": "D.lookupOne(%s).id" % args})
    ap(["AddTable", "P", cols])
    ap(["BulkAddRecord", "D", [None]*len(data["K"]), data])
    ap(["BulkAddRecord", "P", [None]*3, {"Q": ["x", "y", ""]}])
    return e, ap
def lt(a, b):
    try: return a < b
    except TypeError:
        af = ((0 if a is None else 1), (0 if isinstance(a, Number) else 1), type(a).__name__)
        bf = ((0 if b is None else 1), (0 if isinstance(b, Number) else 1), type(b).__name__)
        return af < bf
def expected(rows, pred, q, spec):
    m = [r for r in rows if pred(r, q)]
    if spec is None: cols = []          # default order_by='id'
    elif spec == "ID": cols = []
    elif spec == "S,ID": cols = ["S"]
    elif isinstance(spec, str) and spec.startswith("SORTBY:"): cols = [spec[7:]]
    else:
        cols = list(spec)
        if "manualSort" not in [c.lstrip("-") for c in cols]: cols.append("manualSort")
    def cmp(a, b):
        for c in cols:
            sign = -1 if c.startswith("-") else 1; c = c.lstrip("-")
            if lt(a[c], b[c]): return -sign
            if lt(b[c], a[c]): return sign
        return a["id"] - b["id"]
    return [r["id"] for r in sorted(m, key=functools.cmp_to_key(cmp))]
bad = []; n = 0; t0 = time.time()
DATA = [{"K": ["x", "y", "x", "x"], "S": ["b", "a", "a", "a"], "N": [3, 1, 2, 2], "CL": [["L", "x"], ["L", "y", "x"], None, ["L"]], "manualSort": [4.0, 3.0, 2.0, 1.0]},
        {"K": ["x", "x", "", "y"], "S": ["a", "a", "a", "b"], "N": [None, 2, "alt", 2], "CL": [None, ["L", ""], ["L", "x", "x"], "x"], "manualSort": [1.0, 2.0, 3.0, 4.0]}]
EDITS = [None, ("UpdateRecord", "D", 1, {"K": "y"}), ("UpdateRecord", "D", 3, {"N": 0}), ("RemoveRecord", "D", 2), ("AddRecord", "D", None, {"K": "x", "S": "a", "N": 2, "CL": ["L", "x"]}),
         ("UpdateRecord", "D", 4, {"CL": ["L", "y"]}), ("UpdateRecord", "D", 2, {"manualSort": 0.5}), ("UpdateRecord", "D", 3, {"S": "c"})]
for data in DATA:
    for ed in EDITS:
        e, ap = fixture(data)
        if ed: ap(list(ed))
        d = e.fetch_table("D"); rows = [dict(id=r, **{c: enc(d.columns[c][i]) for c in d.columns}) for i, r in enumerate(d.row_ids)]
        p = e.fetch_table("P")
        for pi, q in enumerate(p.columns["Q"]):
            for i, (k, pred) in enumerate(KEYS):
                for j, (s, spec) in enumerate(SPECS):
                    n += 1
                    got = enc(p.columns["F%d_%d" % (i, j)][pi]); got1 = enc(p.columns["O%d_%d" % (i, j)][pi])
                    try: exp = expected(rows, pred, q, spec)
                    except Exception as ex: exp = "oracle error %r" % ex
                    g = got[1:] if isinstance(got, list) and got and got[0] == 'L' else got
                    if g != exp: bad.append((data["K"], ed, q, k, s, "got", g, "exp", exp))
                    elif got1 != (exp[0] if exp else 0): bad.append((data["K"], ed, q, k, s, "lookupOne got", got1, "exp", exp))
print("checks", n, "time", round(time.time() - t0, 1), "bad", len(bad))
import collections
print(collections.Counter((b[3], b[4]) for b in bad).most_common(8))
for x in bad[:8]: print(str(x)[:260])
