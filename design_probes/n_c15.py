import sys, logging, itertools, time, traceback, random
sys.path.insert(0, '/verif/design_probes/shim'); sys.path.insert(0, '/repo/sandbox/grist')
logging.disable(logging.CRITICAL)
import engine as engine_mod, actions, useractions, objtypes
UA = useractions.from_repr
CNT = "(value or 0) + 1"
TRIG = {"T0": ("default", []), "T1": ("default", ["A"]), "T2": ("default", ["F"]), "T3": ("never", []), "T4": ("manual", []), "T5": ("default", ["A", "T5"]), "T6": ("default", ["B", "A"])}
def fixture():
    e = engine_mod.Engine(); e.load_empty()
    ap = lambda *u: e.apply_user_actions([UA(list(x)) for x in u])
    ap(["AddTable", "T", [{"id": "A", "type": "Int", "isFormula": False}, {"id": "B", "type": "Int", "isFormula": False},
                          {"id": "F", "type": "Int", "isFormula": True, "formula": "$A * 10"}]])
    for name, (kind, deps) in TRIG.items():
        td = e.fetch_table("_grist_Tables_column"); ref = {c: r for r, c in zip(td.row_ids, td.columns["colId"])}
        ap(["AddColumn", "T", name, {"type": "Int", "isFormula": False, "formula": CNT, "recalcWhen": {"default": 0, "never": 1, "manual": 2}[kind],
                                     "recalcDeps": None}])
        if deps:
            td = e.fetch_table("_grist_Tables_column"); ref = {c: r for r, c in zip(td.row_ids, td.columns["colId"])}
            ap(["UpdateRecord", "_grist_Tables_column", ref[name], {"recalcDeps": ["L"] + [ref[d] for d in deps]}])
    ap(["BulkAddRecord", "T", [None, None], {"A": [1, 2], "B": [5, 6]}])
    return e, ap
COLS = ["A", "B", "F"] + list(TRIG)
def state(e):
    td = e.fetch_table("T"); return {r: {c: td.columns[c][i] for c in COLS} for i, r in enumerate(td.row_ids)}
def predict(st, ua):
    """returns {(row, col): 'must'|'mustnot'|'either'|('set', v)} for existing rows under a single UpdateRecord/BulkUpdateRecord"""
    kind, _, rows, vals = ua
    rows = rows if isinstance(rows, list) else [rows]
    vals = {k: (v if isinstance(rows, list) and isinstance(v, list) else [v]) for k, v in vals.items()}
    out = {}
    for r in st:
        for c, (k, deps) in TRIG.items():
            if r not in rows: out[(r, c)] = "mustnot"; continue
            i = rows.index(r)
            changed = {col for col, v in vals.items() if st[r][col] != v[i]}
            written = set(vals)
            if "A" in changed: changed.add("F")
            explicit = c in vals
            selfdep = c in deps
            if k == "never": fire = "mustnot"
            elif k == "manual":
                fire = "must" if changed - {"F"} else "mustnot"     # a user update that changes the row
            else:
                dep_changed = bool(set(deps) & changed)
                dep_written = bool(set(deps) & (written | ({"F"} if "A" in changed else set())))
                fire = "must" if dep_changed else ("either" if dep_written else "mustnot")
            if explicit and not selfdep:
                out[(r, c)] = ("set", vals[c][i])
            elif explicit and selfdep:
                out[(r, c)] = ("setfire", vals[c][i], fire)
            else:
                out[(r, c)] = fire
    return out
bad = []; n = 0; t0 = time.time()
VALS = [1, 7, 0]
uas = []
for r in (1, 2):
    for col in ("A", "B", "T1", "T4", "T5", "T3", "T6"):
        for v in VALS: uas.append(("UpdateRecord", "T", r, {col: v}))
    for v in VALS:
        uas.append(("UpdateRecord", "T", r, {"A": v, "T1": 50})); uas.append(("UpdateRecord", "T", r, {"A": v, "T5": 50})); uas.append(("UpdateRecord", "T", r, {"B": v, "T4": 50}))
        uas.append(("UpdateRecord", "T", r, {"A": v, "B": v}))
for va in itertools.product(VALS, repeat=2): uas.append(("BulkUpdateRecord", "T", [1, 2], {"A": list(va)}))
for u1 in uas:
    for u2 in [None] + random.Random(1).sample(uas, 6):
        e, ap = fixture()
        for u in (u1, u2):
            if u is None: continue
            n += 1
            st = state(e); pred = predict(st, u)
            ap(list(u)); st2 = state(e)
            for (r, c), p in pred.items():
                before, after = st[r][c], st2[r][c]
                if p == "must": ok = after == (before or 0) + 1
                elif p == "mustnot": ok = after == before
                elif p == "either": ok = after in (before, (before or 0) + 1)
                elif p[0] == "set": ok = after == p[1]
                else: ok = after in ((p[1], p[1] + 1) if p[2] != "mustnot" else (p[1], p[1] + 1))
                if not ok: bad.append((u1, u2, u, (r, c), p, before, after))
print("actions", n, "time", round(time.time() - t0, 1), "bad", len(bad))
import collections
print(collections.Counter((b[3][1], str(b[4])[:12]) for b in bad).most_common(10))
for x in bad[:10]: print(str(x)[:300])
