import sys, logging, itertools, time, traceback, tokenize, io
sys.path.insert(0, '/verif/design_probes/shim'); sys.path.insert(0, '/repo/sandbox/grist')
logging.disable(logging.CRITICAL)
import engine as engine_mod, actions, useractions, objtypes
UA = useractions.from_repr
def enc(v): return objtypes.encode_object(v)
FORMS = [
 "$Name", "rec.Name + 'x'", "$R.Name", "rec.R.Name", "$L.Name", "[r.Name for r in $L]", "sum(r.N for r in $L)",
 "A.lookupRecords(Name=$T).N", "A.lookupOne(Name=$T).N", "A.lookupRecords(K=$T, order_by='N').Name", "A.lookupRecords(K=$T, order_by='-N').Name",
 "A.lookupRecords(K=$T, order_by=('K', '-N')).Name", "A.lookupRecords(K=$T, sort_by='N').Name", "[a.Name for a in A.all]", "A.all.N",
 "len(A.lookupRecords(K=$T))", "A.lookupOne(Name=$T).K or 'none'", "PREVIOUS(rec, order_by='T').T if PREVIOUS(rec, order_by='T') else None",
 "RANK(rec, order_by='T')", "NEXT(rec, group_by='T', order_by='id').id", "$R.N + ($R.N or 0)", "'$Name' + \"$N\"  # $Name", "max(a.N for a in A.all if a.K == $T)",
 "A.lookupRecords(K=rec.T).find.ge(1).Name if A.lookupRecords(K=rec.T, order_by='N') else ''", "B.lookupRecords(R=$R).T", "B.lookupRecords(L=CONTAINS($R)).T",
 "f'{$R.Name}-{rec.T}'",
]
def fixture():
    e = engine_mod.Engine(); e.load_empty()
    ap = lambda *u: e.apply_user_actions([UA(list(x)) for x in u])
    ap(["AddTable", "A", [{"id": "Name", "type": "Text", "isFormula": False}, {"id": "K", "type": "Text", "isFormula": False}, {"id": "N", "type": "Int", "isFormula": False}]])
    cols = [{"id": "R", "type": "Ref:A", "isFormula": False}, {"id": "L", "type": "RefList:A", "isFormula": False}, {"id": "T", "type": "Text", "isFormula": False}]
    # formulas valid for table B rows; those using $Name/$N are for table A
    bf = [f for f in FORMS if "$Name" not in f and "rec.Name" not in f and '$N"' not in f]
    af = [f for f in FORMS if f not in bf]
    for i, f in enumerate(bf): cols.append({"id": "F%d" % i, "type": "Any", "isFormula": True, "formula": f})
    ap(["AddTable", "B", cols])
    for i, f in enumerate(af): ap(["AddColumn", "A", "G%d" % i, {"type": "Any", "isFormula": True, "formula": f}])
    ap(["BulkAddRecord", "A", [None]*3, {"Name": ["a", "b", "x"], "K": ["x", "y", "x"], "N": [1, 2, 3]}])
    ap(["BulkAddRecord", "B", [None]*3, {"R": [1, 2, 3], "L": [["L", 1, 2], ["L", 3], None], "T": ["x", "a", "y"]}])
    return e, ap
def fvals(e):
    out = {}
    for t in e.tables:
        if t.startswith("_grist_"): continue
        tab = e.tables[t]; d = e.fetch_table(t)
        for c in d.columns:
            if tab.get_column(c).is_formula(): out[(t, c)] = [enc(v) for v in d.columns[c]]
    return out
def formulas(e):
    d = e.fetch_table("_grist_Tables_column")
    return {r: f for r, f in zip(d.row_ids, d.columns["formula"]) if f}
def toks(s):
    try: return [(t.type, t.string) for t in tokenize.generate_tokens(io.StringIO(s.replace("$", "DOLLAR_")).readline) if t.type not in (tokenize.NL, tokenize.NEWLINE, tokenize.ENDMARKER)]
    except Exception: return None
e, ap = fixture(); base = fvals(e)
errs = {k: v for k, v in base.items() if any(isinstance(x, list) and x and x[0] == 'E' for x in v)}
print("formula cols", len(base), "with errors:", {k: v[0] for k, v in errs.items()})
NAMES = ["Z", "def", "n", "a b", "Name2", "R", "N", "T", "id", "é", "class"]
bad = []; n = 0; t0 = time.time()
for (t, c) in [("A", "Name"), ("A", "K"), ("A", "N"), ("B", "R"), ("B", "L"), ("B", "T"), ("A", None), ("B", None)]:
    for new in NAMES:
        for path in (0, 1):
            n += 1
            e, ap = fixture(); f0 = formulas(e); v0 = fvals(e)
            try:
                if c is None:
                    ret = ap(["RenameTable", t, new]).retValues[0]
                elif path == 0:
                    ret = ap(["RenameColumn", t, c, new]).retValues[0]
                else:
                    cols = e.fetch_table("_grist_Tables_column"); tt = e.fetch_table("_grist_Tables")
                    tid = tt.row_ids[tt.columns["tableId"].index(t)]
                    ref = [r for r, p, cc in zip(cols.row_ids, cols.columns["parentId"], cols.columns["colId"]) if p == tid and cc == c][0]
                    ap(["UpdateRecord", "_grist_Tables_column", ref, {"label": new}])
                    cols = e.fetch_table("_grist_Tables_column"); ret = cols.columns["colId"][cols.row_ids.index(ref)]
            except Exception as ex:
                continue
            v1 = fvals(e)
            # key through rename
            def key(k):
                tt, cc = k
                if c is None and tt == t: tt = ret
                elif tt == t and cc == c: cc = ret
                return (tt, cc)
            for k, v in v0.items():
                if v1.get(key(k)) != v: bad.append((t, c, new, path, k, v, v1.get(key(k)))); break
            f1 = formulas(e)
            for r in f0:
                if f0[r] != f1.get(r):
                    a, b = toks(f0[r]), toks(f1.get(r, ""))
                    if a is None or b is None or len(a) != len(b) or any(x[0] != y[0] or (x[1] != y[1] and x[0] not in (tokenize.NAME, tokenize.STRING)) for x, y in zip(a, b)):
                        bad.append((t, c, new, path, "formula text", f0[r], f1.get(r)))
print("runs", n, "time", round(time.time() - t0, 1), "bad", len(bad))
for x in bad[:12]: print(str(x)[:300])
import collections
print(collections.Counter((b[0], b[1], str(b[4])) for b in bad))
e, ap = fixture()
d = e.fetch_table("_grist_Tables_column")
print([ (c, f) for c, f in zip(d.columns["colId"], d.columns["formula"]) if c in ("F3", "F17", "F20")])
