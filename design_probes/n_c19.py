import sys, logging, itertools, time, traceback, tokenize, io, ast
sys.path.insert(0, '/verif/design_probes/shim'); sys.path.insert(0, '/repo/sandbox/grist')
logging.disable(logging.CRITICAL)
import engine as engine_mod, actions, useractions, objtypes
UA = useractions.from_repr
def enc(v): return objtypes.encode_object(v)
TEXTS = [
 "$A + 1", "rec.A + 1", "x = $A\nx * 2", "x = $A\nreturn x * 2", "if $A > 1:\n  return 'big'\nreturn 'small'", "if $A > 1:\n  'big'\nelse:\n  'small'",
 "'$A'", "\"$A\" + str($A)", "# $A comment\n$A", "$A # trailing $B", "'''multi\n  line $A'''", "x = '''a\n b'''\nx + str($A)", "f'{$A}-{$A+1}'", "f'''{$A}\n x'''",
 "rec.A = 5\n$A", "rec = 5\nrec", "$A +", "def", "return", "  $A + 1", "\t$A", "$A\r\n+ 1", "($A\n + 1)", "lambda: $A", "(lambda x: x + $A)(1)", "[$A for _ in range(2)]",
 "$A; $A + 5", "pass", "x = 1", "for i in range(3):\n  pass", "while True:\n  return 7", "import math\nmath.floor($A)", "$NoSuch", "$A.foo", "1/0", "é = 1\né + $A", "'é' * $A",
 "$A if $A else\n", "\"unterminated", "'''unterminated", "$", "$$A", "$1", "a$A", "$A$A", "print($A)\n$A", "try:\n  1/0\nexcept:\n  $A", "yield $A", "class X: pass\nX", "global q\nq = 1\nq",
 "$A\n\n\n", "\n\n$A", "# only comment", "", "   ", "$A == 1 and \\\n $A < 3", "x: int = $A\nx", "assert $A\n'ok'", "del rec\n1", "with open('x') as f:\n  1", "$A.__class__.__name__",
]
def translate(text):
    """independent tokenize-based $name -> rec.name translation + return last expression"""
    src = text
    out = []
    try:
        toks = list(tokenize.generate_tokens(io.StringIO(src.replace("\r\n", "\n")).readline))
    except Exception:
        return None
    return None  # (reference evaluation is done in the build phase; here we only smoke-test isolation)
def fixture():
    e = engine_mod.Engine(); e.load_empty()
    ap = lambda *u: e.apply_user_actions([UA(list(x)) for x in u])
    ap(["AddTable", "T", [{"id": "A", "type": "Int", "isFormula": False}, {"id": "B", "type": "Text", "isFormula": False},
                          {"id": "G", "type": "Any", "isFormula": True, "formula": "$A * 10"}, {"id": "H", "type": "Any", "isFormula": True, "formula": "$B.upper()"},
                          {"id": "X", "type": "Any", "isFormula": True, "formula": "0"}]])
    ap(["AddTable", "U", [{"id": "R", "type": "Ref:T", "isFormula": False}, {"id": "Q", "type": "Any", "isFormula": True, "formula": "$R.G"}]])
    ap(["BulkAddRecord", "T", [None]*2, {"A": [1, 2], "B": ["p", "q"]}])
    ap(["BulkAddRecord", "U", [None]*2, {"R": [1, 2]}])
    return e, ap
def view(e):
    out = {}
    for t in ("T", "U"):
        d = e.fetch_table(t)
        for c in d.columns: out[(t, c)] = [enc(v) for v in d.columns[c]]
    return out
bad = []; t0 = time.time(); res = {}
for txt in TEXTS:
    e, ap = fixture(); v0 = view(e)
    try:
        ap(["ModifyColumn", "T", "X", {"formula": txt}])
    except Exception as ex:
        bad.append((txt, "bundle raised %r" % ex)); continue
    v1 = view(e)
    for k in v0:
        if k != ("T", "X") and v0[k] != v1[k]: bad.append((txt, "other column changed", k, v0[k], v1[k]))
    res[txt] = v1[("T", "X")]
    # engine still usable
    try:
        ap(["UpdateRecord", "T", 1, {"A": 5}])
        v2 = view(e)
        if v2[("T", "G")] != [50, 20]: bad.append((txt, "G wrong after edit", v2[("T", "G")]))
    except Exception as ex:
        bad.append((txt, "follow-up raised %r" % ex))
print("texts", len(TEXTS), "time", round(time.time() - t0, 1), "bad", len(bad))
for x in bad[:12]: print(str(x)[:300])
for t in TEXTS[:64]:
    print(repr(t)[:40].ljust(42), str(res.get(t))[:90])
