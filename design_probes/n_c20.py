import sys, itertools, math, time
sys.path.insert(0, '/repo/sandbox/grist')
import relabeling
from sortedcontainers import SortedListWithKey
def nf(x, k):
    for _ in range(k): x = relabeling.nextfloat(x)
    return x
CAT = [0.0, 5e-324, 1.0, nf(1.0, 1), nf(1.0, 2), nf(1.0, 3), 1.5, 2.0, relabeling.prevfloat(2.0), 4503599627370496.0, 1e308, sys.float_info.max, float('inf'), float('-inf'), -1.0]
bad = []; n = 0; t0 = time.time(); exc = {}
for size in (0, 1, 2, 3):
    for existing in itertools.combinations_with_replacement([c for c in CAT], size):
        ex = sorted(existing)
        for m in (1, 2):
            for keys in itertools.product(CAT, repeat=m):
                n += 1
                sl = SortedListWithKey(list(range(len(ex))), key=lambda i: ex[i])
                try:
                    adj, new = relabeling.prepare_inserts(sl, list(keys))
                except Exception as e:
                    exc[type(e).__name__] = exc.get(type(e).__name__, 0) + 1
                    pass
                    continue
                pos = list(ex)
                for i, p in adj: pos[sl[i]] = p
                # (1) existing order preserved (non-strict where equal before?) -> must become strictly increasing & finite
                allpos = pos + list(new)
                ok_fin = all(math.isfinite(p) for p in allpos)
                ok_dist = len(set(allpos)) == len(allpos)
                ok_order = all(pos[i] < pos[i + 1] for i in range(len(pos) - 1)) if ok_dist else False
                # (3) each new row placed where requested: number of existing rows strictly less than key stays before it
                ok_place = True
                for kq, np_ in zip(keys, new):
                    before = sum(1 for x in ex if x < kq)
                    if sum(1 for p in pos if p < np_) != before: ok_place = False
                # (4) new rows keep requested order
                ok_rel = all((keys[a] <= keys[b]) == (new[a] < new[b]) or keys[a] == keys[b] for a in range(m) for b in range(m) if a != b)
                if not (ok_fin and ok_dist and ok_order and ok_place and ok_rel):
                    # existing duplicates in input are an invalid pre-state for 'keep order' only if equal; skip those
                    if len(set(ex)) != len(ex) or any(not math.isfinite(x) or x <= 0 for x in ex): continue
                    bad.append((ex, keys, adj, new, ok_fin, ok_dist, ok_order, ok_place, ok_rel))
print("runs", n, "time", round(time.time() - t0, 1), "exceptions", exc, "bad", len(bad))
for b in bad[:10]: print(str(b)[:300])
