import sys, logging
sys.path.insert(0, '/verif/design_probes/shim'); sys.path.insert(0, '/repo/sandbox/grist')
logging.disable(logging.CRITICAL)
import engine as engine_mod, useractions
UA = useractions.from_repr
for big in (1e308, 2.0**60, 2.0**53, 1e16):
    e = engine_mod.Engine(); e.load_empty()
    ap = lambda *u: e.apply_user_actions([UA(list(x)) for x in u])
    ap(["AddTable", "T", [{"id": "A", "type": "Int", "isFormula": False}]])
    ap(["BulkAddRecord", "T", [None, None], {"A": [1, 2]}])
    ap(["UpdateRecord", "T", 2, {"manualSort": big}])
    try:
        ap(["AddRecord", "T", None, {"A": 3}]); print(big, "ok", e.fetch_table("T").columns["manualSort"])
    except Exception as ex:
        print(big, "RAISED", type(ex).__name__, ex, e.fetch_table("T").columns["manualSort"])
