import sys, logging, itertools, json, math, traceback, time
sys.path.insert(0, '/verif/design_probes/shim'); sys.path.insert(0, '/repo/sandbox/grist')
logging.disable(logging.CRITICAL)
import engine as engine_mod, actions, useractions, table_data_set, schema, objtypes
UA = useractions.from_repr

def enc(v):
    return actions.encode_objects([v])[0] if False else objtypes.encode_object(v)
def eq(a, b):
    if isinstance(a, float) and isinstance(b, float): return a == b or (a != a and b != b)
    if isinstance(a, bool) or isinstance(b, bool): return type(a) == type(b) and a == b
    if isinstance(a, list) and isinstance(b, list): return len(a) == len(b) and all(eq(x, y) for x, y in zip(a, b))
    if isinstance(a, dict) and isinstance(b, dict): return a.keys() == b.keys() and all(eq(a[k], b[k]) for k in a)
    return a == b
def snap(e):
    out = {}
    for t in sorted(e.tables):
        td = e.fetch_table(t)
        out[t] = (list(td.row_ids), {c: [enc(v) for v in vs] for c, vs in td.columns.items()})
    return out
def snap_eq(a, b):
    if a.keys() != b.keys(): return "tables %s vs %s" % (sorted(a), sorted(b))
    for t in a:
        if a[t][0] != b[t][0]: return "%s rows %s vs %s" % (t, a[t][0], b[t][0])
        if a[t][1].keys() != b[t][1].keys(): return "%s cols %s vs %s" % (t, sorted(a[t][1]), sorted(b[t][1]))
        for c in a[t][1]:
            if not eq(a[t][1][c], b[t][1][c]): return "%s.%s %s vs %s" % (t, c, a[t][1][c], b[t][1][c])
    return None

class Doc(object):
    def __init__(self):
        self.e = engine_mod.Engine(); self.e.load_empty()
        self.rep = table_data_set.TableDataSet()
        self.apply(["InitNewDoc"])
    def apply(self, *uas):
        ag = self.e.apply_user_actions([UA(list(u)) for u in uas])
        for a in ag.stored:
            self.rep.apply_doc_action(actions.action_from_repr(actions.get_action_repr(a)))
        return ag

def fixture():
    d = Doc()
    d.apply(["AddTable", "A", [{"id": "Name", "type": "Text", "isFormula": False},
                               {"id": "K", "type": "Choice", "isFormula": False},
                               {"id": "N", "type": "Int", "isFormula": False},
                               {"id": "F", "type": "Any", "isFormula": True, "formula": "$N * 2 if $N else $Name"}]])
    d.apply(["AddTable", "B", [{"id": "R", "type": "Ref:A", "isFormula": False},
                               {"id": "L", "type": "RefList:A", "isFormula": False},
                               {"id": "G", "type": "Any", "isFormula": True, "formula": "$R.Name"},
                               {"id": "H", "type": "Any", "isFormula": True, "formula": "len(A.lookupRecords(K=$R.K))"},
                               {"id": "S", "type": "Numeric", "isFormula": True, "formula": "sum($L.N)"}]])
    d.apply(["BulkAddRecord", "A", [None]*3, {"Name": ["a", "b", "c"], "K": ["x", "y", "x"], "N": [1, 2, 0]}])
    d.apply(["BulkAddRecord", "B", [None]*3, {"R": [1, 2, 3], "L": [["L", 1, 2], ["L", 3], None]}])
    d.apply(["CreateViewSection", 1, 0, "record", [3], None])   # summary of A by K
    return d

NAMES = ["Name", "Z", "def", "n", "a b", "", "K"]
TYPES = ["Text", "Int", "Numeric", "Bool", "Any", "Choice", "ChoiceList", "Ref:A", "RefList:A", "Date"]
VALS = ["x", "", None, 0, 5, 1.5, True, ["L", 1], "2020-01-02"]
def bundles():
    for t, cols in (("A", ["Name", "K", "N", "F"]), ("B", ["R", "L", "G"])):
        for c in cols:
            for x in NAMES: yield [("RenameColumn", t, c, x)]
            for x in TYPES: yield [("ModifyColumn", t, c, {"type": x})]
            yield [("RemoveColumn", t, c)]
            yield [("ModifyColumn", t, c, {"isFormula": False})]
            yield [("ModifyColumn", t, c, {"isFormula": True, "formula": "1"})]
            for r in (0, 1, 3, 4, -1):
                for v in VALS: yield [("UpdateRecord", t, r, {c: v})]
        for x in NAMES: yield [("RenameTable", t, x)]
        yield [("RemoveTable", t)]
        for r in (0, 1, 3, 4): yield [("RemoveRecord", t, r)]
        for ids in ([None], [None, None], [7], [-1]): yield [("BulkAddRecord", t, ids, {})]
    yield [("AddReverseColumn", "B", "R")]
    yield [("AddReverseColumn", "B", "L")]

def run(bundle):
    d = fixture()
    s0 = snap(d.e)
    try:
        ag = d.apply(*bundle)
    except Exception as ex:
        r = snap_eq(snap(d.e), s0)
        try: d.e.assert_schema_consistent()
        except Exception as e2: return ("C08", "after rollback: %s" % e2)
        return ("C04", r) if r else None
    s1 = snap(d.e)
    # C02 replica
    for t in s1:
        if t not in d.rep.all_tables: return ("C02", "missing table %s in replica" % t)
        td = d.rep.all_tables[t]
        order = sorted(range(len(td.row_ids)), key=lambda i: td.row_ids[i])
        if [td.row_ids[i] for i in order] != s1[t][0]: return ("C02", "%s rows %s vs %s" % (t, sorted(td.row_ids), s1[t][0]))
        for c, vs in s1[t][1].items():
            col = d.e.tables[t].get_column(c)
            if c not in td.columns: return ("C02", "%s.%s missing in replica" % (t, c))
            rv = [enc(td.columns[c][i]) for i in order]
            if not eq(rv, vs): return ("C02", "%s.%s replica %s engine %s" % (t, c, rv, vs))
    try: d.e.assert_schema_consistent()
    except Exception as e2: return ("C08", str(e2)[:200])
    undo = [actions.get_action_repr(a) for a in ag.undo]
    stored = [actions.get_action_repr(a) for a in ag.stored]
    try:
        d.e.apply_user_actions([UA(["ApplyUndoActions", undo])])
    except Exception as ex:
        return ("C01", "undo raised %r" % ex)
    r = snap_eq(snap(d.e), s0)
    if r: return ("C01", r)
    try:
        d.e.apply_user_actions([UA(["ApplyDocActions", stored])])
    except Exception as ex:
        return ("C03", "redo raised %r" % ex)
    r = snap_eq(snap(d.e), s1)
    if r: return ("C03", r)
    return None


ALLT = ["Text", "Int", "Numeric", "Bool", "Any", "Choice", "ChoiceList", "Ref:A", "RefList:A", "Date", "DateTime:UTC", "Ref:B"]
POOL = ["x", "", None, 0, 5, 1.5, True, ["L", 1], ["L", 2, 3], "2020-01-02", "1", "[1,2]", 3]
bad = []; n = 0; t0 = time.time()
for (t, c) in (("A", "Name"), ("A", "N"), ("A", "K"), ("B", "R"), ("B", "L")):
    for src in ALLT:
        for dst in ALLT:
            if src == dst: continue
            n += 1
            d = fixture()
            try:
                d.apply(["ModifyColumn", t, c, {"type": src}])
                rows = list(d.e.fetch_table(t).row_ids)
                d.apply(["BulkUpdateRecord", t, rows, {c: [POOL[(i * 5 + n) % len(POOL)] for i in range(len(rows))]}])
            except Exception as ex:
                continue
            before = snap(d.e)
            raw_before = [d.e.tables[t].get_column(c).raw_get(r) for r in rows]
            try:
                d.apply(["ModifyColumn", t, c, {"type": dst}])
            except Exception as ex:
                r = snap_eq(snap(d.e), before)
                if r: bad.append((t, c, src, dst, "raised+changed", r))
                continue
            col = d.e.tables[t].get_column(c)
            exp = [enc(col.convert(v)) for v in raw_before]
            got = [enc(col.raw_get(r)) for r in rows]
            if not eq(exp, got): bad.append((t, c, src, dst, "cells", [enc(v) for v in raw_before], exp, got))
            after = snap(d.e)
            for tt in before:
                if tt.startswith("_grist_") or "_summary_" in tt: continue
                for cc in before[tt][1]:
                    if (tt, cc) == (t, c): continue
                    colobj = d.e.tables[tt].get_column(cc) if tt in d.e.tables and d.e.tables[tt].has_column(cc) else None
                    if colobj is not None and colobj.is_formula(): continue
                    if cc in after.get(tt, ([], {}))[1] and not eq(before[tt][1][cc], after[tt][1][cc]):
                        bad.append((t, c, src, dst, "other data col changed", tt, cc, before[tt][1][cc], after[tt][1][cc]))
print("runs", n, "time", round(time.time() - t0, 1), "bad", len(bad))
for b in bad[:15]: print(str(b)[:400])
