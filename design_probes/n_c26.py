import sys, logging, itertools, time
sys.path.insert(0, '/verif/design_probes/shim'); sys.path.insert(0, '/repo/sandbox/grist')
logging.disable(logging.CRITICAL)
import engine as engine_mod, useractions, objtypes
UA = useractions.from_repr
def enc(v): return objtypes.encode_object(v)
def fixture():
    e = engine_mod.Engine(); e.load_empty()
    ap = lambda *u: e.apply_user_actions([UA(list(x)) for x in u])
    ap(["AddTable", "A", [{"id": "X", "type": "Text", "isFormula": False}]])
    ap(["AddTable", "B", [{"id": "R", "type": "Ref:A", "isFormula": False}, {"id": "L", "type": "RefList:A", "isFormula": False}]])
    ap(["BulkAddRecord", "A", [None], {"X": ["a"]}]); ap(["BulkAddRecord", "B", [None], {"R": [1]}])
    return e, ap
def snap(e): return {t: (list(e.fetch_table(t).row_ids), {c: [enc(v) for v in vs] for c, vs in e.fetch_table(t).columns.items() if c != "manualSort"}) for t in ("A", "B")}
ACTS = [("AddRecord", "A", -1, {"X": "n1"}), ("AddRecord", "A", -2, {"X": "n2"}), ("BulkAddRecord", "A", [-1, -2], {"X": ["m1", "m2"]}), ("AddRecord", "A", None, {"X": "auto"}),
        ("AddRecord", "B", -1, {"R": -1}), ("AddRecord", "B", None, {"R": -2}), ("AddRecord", "B", None, {"L": ["L", -1, 1]}), ("AddRecord", "B", None, {"L": ["L", -2, -1]}), ("AddRecord", "B", None, {"R": -3}),
        ("UpdateRecord", "A", -1, {"X": "upd"}), ("RemoveRecord", "A", -1), ("UpdateRecord", "B", 1, {"R": -1}), ("UpdateRecord", "B", 1, {"L": ["L", -1]}), ("UpdateRecord", "B", -1, {"R": 1})]
def model(bundle):
    A = {1: "a"}; B = {1: {"R": 1, "L": None}}; tmp = {"A": {}, "B": {}}
    def tr(t, i):
        if isinstance(i, int) and i < 0:
            if i not in tmp[t]: raise KeyError(i)
            return tmp[t][i]
        return i
    for a in bundle:
        k, t = a[0], a[1]
        tbl = A if t == "A" else B
        if k in ("AddRecord", "BulkAddRecord"):
            ids = a[2] if k == "BulkAddRecord" else [a[2]]
            vals = a[3] if k == "BulkAddRecord" else {c: [v] for c, v in a[3].items()}
            new = []
            nxt = max(list(tbl) + [0]) + 1
            for i in ids:
                new.append(nxt); nxt += 1
            conv = {}
            for c, vs in vals.items():
                out = []
                for v in vs:
                    if c == "R": out.append(tr("A", v))
                    elif c == "L": out.append(["L"] + [tr("A", x) for x in v[1:]])
                    else: out.append(v)
                conv[c] = out
            for j, (i, nid) in enumerate(zip(ids, new)):
                if isinstance(i, int) and i < 0: tmp[t][i] = nid
                tbl[nid] = ({"R": 0, "L": None} if t == "B" else "")
                if t == "A": tbl[nid] = conv.get("X", [""] * len(ids))[j]
                else:
                    for c in conv: tbl[nid][c] = conv[c][j]
        elif k == "UpdateRecord":
            r = tr(t, a[2])
            if r not in tbl: raise KeyError(r)
            for c, v in a[3].items():
                if t == "A": tbl[r] = v
                elif c == "R": tbl[r]["R"] = tr("A", v)
                else: tbl[r]["L"] = ["L"] + [tr("A", x) for x in v[1:]]
        elif k == "RemoveRecord":
            r = tr(t, a[2])
            if r in tbl:
                del tbl[r]
                if t == "A":
                    for b in B.values():
                        if b["R"] == r: b["R"] = 0
                        if b["L"]: b["L"] = (["L"] + [x for x in b["L"][1:] if x != r]) if [x for x in b["L"][1:] if x != r] else None
    return A, B
bad = []; n = 0; rej = 0; t0 = time.time()
for bundle in itertools.chain(itertools.permutations(ACTS, 2), itertools.islice(itertools.permutations(ACTS, 3), 0, None, 7)):
    n += 1
    e, ap = fixture(); s0 = snap(e)
    try: exp = model(bundle)
    except KeyError: exp = "ERR"
    try:
        e.apply_user_actions([UA(list(a)) for a in bundle])
    except Exception as ex:
        rej += 1
        if exp != "ERR": bad.append((bundle, "raised %r" % ex, "expected ok"))
        elif snap(e) != s0: bad.append((bundle, "raised and changed"))
        continue
    if exp == "ERR": bad.append((bundle, "accepted, expected rejection", snap(e))); continue
    s1 = snap(e); A, B = exp
    got = ({r: x for r, x in zip(s1["A"][0], s1["A"][1]["X"])}, {r: {"R": a, "L": b} for r, a, b in zip(s1["B"][0], s1["B"][1]["R"], s1["B"][1]["L"])})
    if got != (A, B): bad.append((bundle, "state", got, (A, B)))
print("bundles", n, "rejected", rej, "time", round(time.time() - t0, 1), "bad", len(bad))
import collections
print(collections.Counter(b[1][:40] for b in bad).most_common(6))
for x in bad[:8]: print(str(x)[:400])
