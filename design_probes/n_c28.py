import sys, logging, itertools, time, traceback
sys.path.insert(0, '/verif/design_probes/shim'); sys.path.insert(0, '/repo/sandbox/grist')
logging.disable(logging.CRITICAL)
import engine as engine_mod, actions, useractions, objtypes
UA = useractions.from_repr
def enc(v): return objtypes.encode_object(v)
def fixture(rows):
    e = engine_mod.Engine(); e.load_empty()
    ap = lambda *u: e.apply_user_actions([UA(list(x)) for x in u])
    ap(["AddTable", "T", [{"id": "K1", "type": "Text", "isFormula": False}, {"id": "K2", "type": "Int", "isFormula": False}, {"id": "V", "type": "Text", "isFormula": False},
                          {"id": "F", "type": "Text", "isFormula": True, "formula": "$K1.upper()"}]])
    ap(["BulkAddRecord", "T", [None]*len(rows), {"K1": [r[0] for r in rows], "K2": [r[1] for r in rows], "V": [r[2] for r in rows]}])
    return e, ap
def model(rows, require, col_values, options):
    rows = [dict(id=i + 1, K1=r[0], K2=r[1], V=r[2]) for i, r in enumerate(rows)]
    on_many = options.get("on_many", "first")
    if on_many not in ("first", "none", "all"): return "ERR"
    if not require and not options.get("allow_empty_require", False): return "ERR"
    if not require and not col_values: return (rows, [])
    lens = {len(v) for v in list(require.values()) + list(col_values.values())}
    if len(lens) != 1: return "ERR"
    n = lens.pop()
    if require and len(set(zip(*require.values()))) < n: return "ERR"
    ids = []; adds = []
    updates = []
    for i in range(n):
        m = [r for r in rows if all(r[k] == v[i] for k, v in require.items())]
        if not m and options.get("add", True):
            adds.append((i, dict({k: v[i] for k, v in require.items()}, **{k: v[i] for k, v in col_values.items()}))); ids.append(None); continue
        if m and options.get("update", True):
            if len(m) > 1:
                if on_many == "first": m = m[:1]
                elif on_many == "none": ids.append([]); continue
            for r in m: updates.append((r, {k: v[i] for k, v in col_values.items()}))
            ids.append([r["id"] for r in m]); continue
        ids.append([])
    nxt = max([r["id"] for r in rows] + [0]) + 1
    for i, vals in adds:
        rows.append(dict(dict(id=nxt, K1="", K2=0, V=""), **vals)); ids[i] = [nxt]; nxt += 1
    for r, vals in updates: r.update(vals)
    return (rows, ids)
ROWS = [[("a", 1, "p"), ("b", 2, "q"), ("a", 1, "r")], [("a", 1, "p")], []]
REQS = [{}, {"K1": ["a"]}, {"K1": ["a", "c"]}, {"K1": ["a", "a"]}, {"K1": ["a"], "K2": [1]}, {"K1": ["c"], "K2": [1, 2]}, {"K2": [2, 3]}, {"K1": ["b", "a"]}]
VALS = [{}, {"V": ["z"]}, {"V": ["z", "w"]}, {"K2": [7]}, {"V": ["z"], "K2": [5]}]
OPTS = [{}, {"on_many": "all"}, {"on_many": "none"}, {"on_many": "bad"}, {"update": False}, {"add": False}, {"allow_empty_require": True}, {"on_many": "all", "add": False}]
bad = []; n = 0; t0 = time.time(); errs = 0
for rows in ROWS:
    for req in REQS:
        for vals in VALS:
            for opt in OPTS:
                n += 1
                e, ap = fixture(rows)
                exp = model(rows, req, vals, opt)
                s0 = [list(e.fetch_table("T").row_ids)] + [[enc(v) for v in e.fetch_table("T").columns[c]] for c in ("K1", "K2", "V")]
                try:
                    ag = ap(["BulkAddOrUpdateRecord", "T", {k: list(v) for k, v in req.items()}, {k: list(v) for k, v in vals.items()}, dict(opt)])
                    ret = ag.retValues[0]
                except Exception as ex:
                    errs += 1
                    s1 = [list(e.fetch_table("T").row_ids)] + [[enc(v) for v in e.fetch_table("T").columns[c]] for c in ("K1", "K2", "V")]
                    if exp != "ERR": bad.append((rows, req, vals, opt, "raised %r" % ex, "expected ok"))
                    elif s0 != s1: bad.append((rows, req, vals, opt, "raised and changed"))
                    continue
                if exp == "ERR": bad.append((rows, req, vals, opt, "accepted, expected error", ret)); continue
                d = e.fetch_table("T")
                got = [dict(id=r, K1=enc(d.columns["K1"][i]), K2=enc(d.columns["K2"][i]), V=enc(d.columns["V"][i])) for i, r in enumerate(d.row_ids)]
                if got != exp[0]: bad.append((rows, req, vals, opt, "table", got, exp[0]))
                elif ret["recordIds"] != exp[1]: bad.append((rows, req, vals, opt, "ids", ret["recordIds"], exp[1]))
print("runs", n, "errors", errs, "time", round(time.time() - t0, 1), "bad", len(bad))
import collections
print(collections.Counter(b[4] if isinstance(b[4], str) and len(b[4]) < 30 else str(b[4])[:60] for b in bad).most_common(8))
for x in bad[:10]: print(str(x)[:330])
