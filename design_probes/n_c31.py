import sys, logging, itertools, json, math, traceback, time
sys.path.insert(0, '/verif/design_probes/shim'); sys.path.insert(0, '/repo/sandbox/grist')
logging.disable(logging.CRITICAL)
import engine as engine_mod, actions, useractions, table_data_set, schema, objtypes
UA = useractions.from_repr

def enc(v):
    return actions.encode_objects([v])[0] if False else objtypes.encode_object(v)
def eq(a, b):
    if isinstance(a, float) and isinstance(b, float): return a == b or (a != a and b != b)
    if isinstance(a, bool) or isinstance(b, bool): return type(a) == type(b) and a == b
    if isinstance(a, list) and isinstance(b, list): return len(a) == len(b) and all(eq(x, y) for x, y in zip(a, b))
    if isinstance(a, dict) and isinstance(b, dict): return a.keys() == b.keys() and all(eq(a[k], b[k]) for k in a)
    return a == b
def snap(e):
    out = {}
    for t in sorted(e.tables):
        td = e.fetch_table(t)
        out[t] = (list(td.row_ids), {c: [enc(v) for v in vs] for c, vs in td.columns.items()})
    return out
def snap_eq(a, b):
    if a.keys() != b.keys(): return "tables %s vs %s" % (sorted(a), sorted(b))
    for t in a:
        if a[t][0] != b[t][0]: return "%s rows %s vs %s" % (t, a[t][0], b[t][0])
        if a[t][1].keys() != b[t][1].keys(): return "%s cols %s vs %s" % (t, sorted(a[t][1]), sorted(b[t][1]))
        for c in a[t][1]:
            if not eq(a[t][1][c], b[t][1][c]): return "%s.%s %s vs %s" % (t, c, a[t][1][c], b[t][1][c])
    return None

class Doc(object):
    def __init__(self):
        self.e = engine_mod.Engine(); self.e.load_empty()
        self.rep = table_data_set.TableDataSet()
        self.apply(["InitNewDoc"])
    def apply(self, *uas):
        ag = self.e.apply_user_actions([UA(list(u)) for u in uas])
        for a in ag.stored:
            self.rep.apply_doc_action(actions.action_from_repr(actions.get_action_repr(a)))
        return ag

def fixture():
    d = Doc()
    d.apply(["AddTable", "A", [{"id": "Name", "type": "Text", "isFormula": False},
                               {"id": "K", "type": "Choice", "isFormula": False},
                               {"id": "N", "type": "Int", "isFormula": False},
                               {"id": "F", "type": "Any", "isFormula": True, "formula": "$N * 2 if $N else $Name"}]])
    d.apply(["AddTable", "B", [{"id": "R", "type": "Ref:A", "isFormula": False},
                               {"id": "L", "type": "RefList:A", "isFormula": False},
                               {"id": "G", "type": "Any", "isFormula": True, "formula": "$R.Name"},
                               {"id": "H", "type": "Any", "isFormula": True, "formula": "len(A.lookupRecords(K=$R.K))"},
                               {"id": "S", "type": "Numeric", "isFormula": True, "formula": "sum($L.N)"}]])
    d.apply(["BulkAddRecord", "A", [None]*3, {"Name": ["a", "b", "c"], "K": ["x", "y", "x"], "N": [1, 2, 0]}])
    d.apply(["BulkAddRecord", "B", [None]*3, {"R": [1, 2, 3], "L": [["L", 1, 2], ["L", 3], None]}])
    d.apply(["CreateViewSection", 1, 0, "record", [3], None])   # summary of A by K
    return d

NAMES = ["Name", "Z", "def", "n", "a b", "", "K"]
TYPES = ["Text", "Int", "Numeric", "Bool", "Any", "Choice", "ChoiceList", "Ref:A", "RefList:A", "Date"]
VALS = ["x", "", None, 0, 5, 1.5, True, ["L", 1], "2020-01-02"]
def bundles():
    for t, cols in (("A", ["Name", "K", "N", "F"]), ("B", ["R", "L", "G"])):
        for c in cols:
            for x in NAMES: yield [("RenameColumn", t, c, x)]
            for x in TYPES: yield [("ModifyColumn", t, c, {"type": x})]
            yield [("RemoveColumn", t, c)]
            yield [("ModifyColumn", t, c, {"isFormula": False})]
            yield [("ModifyColumn", t, c, {"isFormula": True, "formula": "1"})]
            for r in (0, 1, 3, 4, -1):
                for v in VALS: yield [("UpdateRecord", t, r, {c: v})]
        for x in NAMES: yield [("RenameTable", t, x)]
        yield [("RemoveTable", t)]
        for r in (0, 1, 3, 4): yield [("RemoveRecord", t, r)]
        for ids in ([None], [None, None], [7], [-1]): yield [("BulkAddRecord", t, ids, {})]
    yield [("AddReverseColumn", "B", "R")]
    yield [("AddReverseColumn", "B", "L")]

def run(bundle):
    d = fixture()
    s0 = snap(d.e)
    try:
        ag = d.apply(*bundle)
    except Exception as ex:
        r = snap_eq(snap(d.e), s0)
        try: d.e.assert_schema_consistent()
        except Exception as e2: return ("C08", "after rollback: %s" % e2)
        return ("C04", r) if r else None
    s1 = snap(d.e)
    # C02 replica
    for t in s1:
        if t not in d.rep.all_tables: return ("C02", "missing table %s in replica" % t)
        td = d.rep.all_tables[t]
        order = sorted(range(len(td.row_ids)), key=lambda i: td.row_ids[i])
        if [td.row_ids[i] for i in order] != s1[t][0]: return ("C02", "%s rows %s vs %s" % (t, sorted(td.row_ids), s1[t][0]))
        for c, vs in s1[t][1].items():
            col = d.e.tables[t].get_column(c)
            if c not in td.columns: return ("C02", "%s.%s missing in replica" % (t, c))
            rv = [enc(td.columns[c][i]) for i in order]
            if not eq(rv, vs): return ("C02", "%s.%s replica %s engine %s" % (t, c, rv, vs))
    try: d.e.assert_schema_consistent()
    except Exception as e2: return ("C08", str(e2)[:200])
    undo = [actions.get_action_repr(a) for a in ag.undo]
    stored = [actions.get_action_repr(a) for a in ag.stored]
    try:
        d.e.apply_user_actions([UA(["ApplyUndoActions", undo])])
    except Exception as ex:
        return ("C01", "undo raised %r" % ex)
    r = snap_eq(snap(d.e), s0)
    if r: return ("C01", r)
    try:
        d.e.apply_user_actions([UA(["ApplyDocActions", stored])])
    except Exception as ex:
        return ("C03", "redo raised %r" % ex)
    r = snap_eq(snap(d.e), s1)
    if r: return ("C03", r)
    return None


def classify(d, ag, bundle):
    tt = d.e.fetch_table("_grist_Tables")
    summ = {t for t, s_ in zip(tt.columns["tableId"], tt.columns["summarySourceTable"]) if s_}
    msgs = []
    if len(ag.stored) != len(ag.direct): return ["len mismatch"]
    (kind, table, *rest) = bundle[0]
    for a, direct in zip(ag.stored, ag.direct):
        r = actions.get_action_repr(a)
        t = r[1]
        if t in summ and direct: msgs.append("summary action direct: %s" % r)
        if r[0] in ("UpdateRecord", "BulkUpdateRecord") and not t.startswith("_grist_"):
            cols = list(r[3])
            tab = d.e.tables.get(t)
            if tab and all(tab.has_column(c) and tab.get_column(c).is_formula() for c in cols) and direct:
                msgs.append("formula-only update direct: %s" % r)
        if t == table and r[0].replace("Bulk", "") == kind.replace("Bulk", "") and not direct and t not in summ:
            # the user's own edit
            cols = list(r[3]) if len(r) > 3 and isinstance(r[3], dict) else []
            tab = d.e.tables.get(t)
            if not cols or not all(tab.get_column(c).is_formula() for c in cols if tab.has_column(c)):
                msgs.append("user edit not direct: %s" % r)
    return msgs
bad = []; n = 0
def rec_bundles():
    for t, cols in (("A", ["Name", "K", "N"]), ("B", ["R", "L"])):
        for c in cols:
            for r in (1, 3):
                for v in VALS: yield [("UpdateRecord", t, r, {c: v})]
        for r in (1, 3): yield [("RemoveRecord", t, r)]
        for ids in ([None], [None, None], [7]): yield [("BulkAddRecord", t, ids, {})]
        yield [("AddRecord", t, None, {cols[0]: VALS[0]})]
for b in rec_bundles():
    n += 1
    d = fixture()
    try:
        ag = d.apply(*b)
    except Exception as ex:
        continue
    m = classify(d, ag, b)
    if m: bad.append((b, m, [actions.get_action_repr(a)[:2] for a in ag.stored], ag.direct))
print("bundles", n, "bad", len(bad))
for x in bad[:10]: print(x)
# empty column receiving data
d = fixture()
d.apply(["AddColumn", "A", "E", {}])
ag = d.apply(["UpdateRecord", "A", 1, {"E": "hello"}])
print([ (actions.get_action_repr(a)[:3], dr) for a, dr in zip(ag.stored, ag.direct)])
