import sys, io, csv, os, tempfile, logging
sys.path.insert(0, '/verif/design_probes/shim'); sys.path.insert(0, '/repo/sandbox/grist')
logging.disable(logging.CRITICAL)
from imports import import_csv
def run(k, w1, w2, hdr):
    rows = [["f%d_%d" % (i, j) for j in range(w1)] for i in range(k)] + [["z%d" % j for j in range(w2)]]
    text = "\n".join(",".join('"%s"' % c for c in r) for r in rows) + "\n"
    p = tempfile.mktemp(suffix=".csv"); open(p, "w").write(text)
    opts, tables = import_csv.parse_file(p, {"delimiter": ",", "quotechar": '"', "include_col_names_as_headers": hdr})
    os.remove(p)
    t = tables[0]
    print(k, w1, w2, hdr, "ncols", len(t["table_data"]), "nrows", [len(c) for c in t["table_data"]], "meta", [m["id"] for m in t["column_metadata"]], "first", [c[0] for c in t["table_data"]], "last", [c[-1] for c in t["table_data"]])
run(95, 1, 3, False); run(3, 1, 3, False); run(3, 2, 3, False); run(3, 1, 3, True); run(2, 1, 2, False)
