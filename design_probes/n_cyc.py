import sys, logging, itertools, time
sys.path.insert(0, '/verif/design_probes/shim'); sys.path.insert(0, '/repo/sandbox/grist')
logging.disable(logging.CRITICAL)
import engine as engine_mod, actions, useractions, objtypes
UA = useractions.from_repr
N = 3
cols = ["C%d" % i for i in range(N)]
def reach(adj):
    r = [[adj[i][j] for j in range(N)] for i in range(N)]
    for k in range(N):
        for i in range(N):
            for j in range(N):
                r[i][j] = r[i][j] or (r[i][k] and r[k][j])
    return r
t0 = time.time(); bad = []; n = 0
perms = list(itertools.permutations(range(N)))
for bits in itertools.product([0, 1], repeat=N*N):
    adj = [list(bits[i*N:(i+1)*N]) for i in range(N)]
    r = reach(adj)
    for perm in perms[:1] + perms[-1:]:
        n += 1
        e = engine_mod.Engine(); e.load_empty()
        orig = e._make_sorted_work_items
        def wrapped(nodes, orig=orig, perm=perm):
            items = orig(nodes)
            user = [w for w in items if w.node.table_id == "T" and w.node.col_id in cols]
            rest = [w for w in items if w not in user]
            if len(user) == N:
                user = [user[p] for p in perm]
            return rest + user
        e._make_sorted_work_items = wrapped
        spec = [{"id": "D", "type": "Int", "isFormula": False}]
        for i in range(N):
            f = " + ".join(["$D + %d" % (i + 1)] + ["$%s" % cols[j] for j in range(N) if adj[i][j]])
            spec.append({"id": cols[i], "type": "Any", "isFormula": True, "formula": f})
        try:
            e.apply_user_actions([UA(["AddTable", "T", spec])])
            e.apply_user_actions([UA(["BulkAddRecord", "T", [None, None], {"D": [10, 20]}])])
        except Exception as ex:
            bad.append((adj, perm, "raised %r" % ex)); continue
        td = e.fetch_table("T")
        for i in range(N):
            for row, d in enumerate([10, 20]):
                v = td.columns[cols[i]][row]
                self_dep = r[i][i]
                dep_cycle = any(r[i][k] and r[k][k] for k in range(N))
                if self_dep:
                    if not (isinstance(v, objtypes.RaisedException) and v._name == "CircularRefError"):
                        bad.append((adj, perm, "C%d row%d expected circular got %r" % (i, row, objtypes.encode_object(v))))
                elif not dep_cycle:
                    # normal value: d+i+1 + sum of deps
                    def val(i):
                        return d + i + 1 + sum(val(j) for j in range(N) if adj[i][j])
                    if v != val(i):
                        bad.append((adj, perm, "C%d row%d expected %s got %r" % (i, row, val(i), objtypes.encode_object(v))))
print("runs", n, "time", round(time.time() - t0, 1), "bad", len(bad))
for b in bad[:10]: print(b)
