import sys, logging, io, json, os, tempfile
sys.path.insert(0, '/verif/design_probes/shim'); sys.path.insert(0, '/repo/sandbox/grist')
logging.disable(logging.CRITICAL)
from imports import import_csv, import_json
rows = [["a%d" % i, "b%d" % i] for i in range(101)] + [["x", "y", "z"]]
text = "\n".join(",".join('"%s"' % c for c in r) for r in rows) + "\n"
p = tempfile.mktemp(suffix=".csv"); open(p, "w").write(text)
opts, tables = import_csv.parse_file(p, {"delimiter": ",", "quotechar": '"', "include_col_names_as_headers": False})
t = tables[0]
print("cols", len(t["table_data"]), [len(c) for c in t["table_data"]], "last row", [c[-1] for c in t["table_data"]])
rows = [["a%d" % i, "b%d" % i] for i in range(99)] + [["x", "y", "z"]]
text = "\n".join(",".join('"%s"' % c for c in r) for r in rows) + "\n"
open(p, "w").write(text)
opts, tables = import_csv.parse_file(p, {"delimiter": ",", "quotechar": '"', "include_col_names_as_headers": False})
t = tables[0]
print("cols", len(t["table_data"]), "last row", [c[-1] for c in t["table_data"]])
os.remove(p)
print("== json")
for d in ([{"a": {"b": 1}, "a_b": {"c": 2}}], [{"a": [{"x": 1}], "a_": 5}], {"": {"": 1}}, [[1, [2, 3]]], [{"a": [1, {"b": 2}]}]):
    out = import_json.dumps(d, "N")
    print(json.dumps(d), "->")
    for t in out["tables"]:
        print("   ", t["table_name"], t["column_metadata"], t["table_data"])
