import sys, logging, io, json, marshal, datetime
sys.path.insert(0, '/verif/design_probes/shim'); sys.path.insert(0, '/repo/sandbox/grist')
logging.disable(logging.CRITICAL)
import engine as engine_mod, actions, useractions, objtypes, migrations, table_data_set, schema
UA = useractions.from_repr

def eng():
    e = engine_mod.Engine(); e.load_empty()
    e.apply_user_actions([UA(["AddTable", "T", [{"id": "A", "type": "Text", "isFormula": False}]])])
    e.apply_user_actions([UA(["BulkAddRecord", "T", [None]*2, {"A": ["p", "q"]}])])
    return e

print("== C27")
for ids in ([0], [5, 5], [1], [None, 3], [3, None], [-1, -1], [1000001], [1000000]):
    e = eng()
    try:
        ag = e.apply_user_actions([UA(["BulkAddRecord", "T", list(ids), {"A": ["x"]*len(ids)}])])
        print(ids, "OK ret", ag.retValues, "rows", e.fetch_table("T").row_ids, e.fetch_table("T").columns["A"])
    except Exception as ex:
        print(ids, "RAISED", type(ex).__name__, str(ex)[:80], "rows", e.fetch_table("T").row_ids)

print("== C24")
class S(str): pass
for v in ({S("a"): 1}, {"a": S("b")}, [S("x")], datetime.datetime(9999,12,31,23,59,59,999999), datetime.datetime(2300,1,1,0,0,0,1)):
    enc = objtypes.encode_object(v)
    try:
        marshal.dumps(enc, 2); ok = True
    except Exception as ex:
        ok = repr(ex)
    d = objtypes.decode_object(enc)
    print(repr(v)[:50], "->", enc, "marshal", ok, "re-encode same:", objtypes.encode_object(d) == enc)

print("== C25 migration45 / 16")
import test_migrations
def doc_at(v):
    td = table_data_set.TableDataSet()
    td.apply_doc_actions(test_migrations.schema_version0())
    for k in range(1, v+1):
        f = migrations.all_migrations.get(k)
        if f: f(td)
    td.apply_doc_action(actions.UpdateRecord('_grist_DocInfo', 1, {'schemaVersion': v})) if td.all_tables['_grist_DocInfo'].row_ids else td.apply_doc_action(actions.AddRecord('_grist_DocInfo', 1, {'schemaVersion': v}))
    return td
for content in ['{"timeCreated": "a"}', '{"timeCreated": 1000}', '[]', 'x', '{"timeCreated": null}', '{"timeCreated": true}', '{"timeCreated": [1]}']:
    td = doc_at(44)
    td.apply_doc_action(actions.AddRecord('_grist_Cells', 1, {'content': content}))
    try:
        acts = migrations.create_migrations(td.all_tables)
        print(repr(content), "OK")
    except Exception as ex:
        print(repr(content), "RAISED", type(ex).__name__, ex)
