import sys, logging
sys.path.insert(0, '/verif/design_probes/shim'); sys.path.insert(0, '/repo/sandbox/grist')
logging.disable(logging.CRITICAL)
import engine as engine_mod, useractions, objtypes, schema
UA = useractions.from_repr
e = engine_mod.Engine(); e.load_empty()
ap = lambda *u: e.apply_user_actions([UA(list(x)) for x in u])
ap(["AddTable", "T", [{"id": "A", "type": "Int", "isFormula": False}, {"id": "B", "type": "Int", "isFormula": False}]])
ag = ap(["AddColumn", "T", "D", {"type": "Int", "isFormula": False, "formula": "$A+$B", "recalcWhen": 0, "recalcDeps": [2, 3]}])
td = e.fetch_table("_grist_Tables_column")
print("ret", ag.retValues, [(r, c, objtypes.encode_object(d)) for r, c, d in zip(td.row_ids, td.columns["colId"], td.columns["recalcDeps"])])
for ua in (["RemoveColumn", "T", "D"], ["Calculate"], ["AddColumn", "T", "D", {}], ["RenameColumn", "T", "A", "AA"]):
    try:
        ap(ua); e.assert_schema_consistent()
        td = e.fetch_table("_grist_Tables_column"); print(ua[0], "ok; cols:", td.columns["colId"], "schema:", list(e.schema["T"].columns))
    except Exception as ex:
        print(ua[0], "RAISED", type(ex).__name__, str(ex)[:150])
