import sys, logging, itertools, time, traceback, json
sys.path.insert(0, '/verif/design_probes/shim'); sys.path.insert(0, '/repo/sandbox/grist')
logging.disable(logging.CRITICAL)
import engine as engine_mod, actions, useractions, objtypes
UA = useractions.from_repr
def enc(v): return objtypes.encode_object(v)
def base():
    e = engine_mod.Engine(); e.load_empty()
    ap = lambda *u: e.apply_user_actions([UA(list(x)) for x in u])
    return e, ap
# ---- C39
bad = []; n = 0
CH = ["a", "b", "", None, "c", 5]
CLS = [None, ["L", "a"], ["L", "a", "b"], ["L", "b", "b", "c"], "a", ["L"]]
MAPS = [{}, {"a": "b"}, {"a": "b", "b": "a"}, {"a": "c", "c": "d"}, {"x": "y"}, {"a": "a"}, {"": "e"}, {"b": ""}]
def ren(m, v): return m.get(v, v) if isinstance(v, str) else v
for m in MAPS:
    for target in ("C", "CL"):
        n += 1
        e, ap = base()
        ap(["AddTable", "T", [{"id": "C", "type": "Choice", "isFormula": False}, {"id": "CL", "type": "ChoiceList", "isFormula": False}, {"id": "O", "type": "Choice", "isFormula": False}]])
        ap(["BulkAddRecord", "T", [None]*6, {"C": CH, "CL": CLS, "O": ["a", "b", "a", "b", "a", "b"]}])
        cols = e.fetch_table("_grist_Tables_column"); ref = {c: r for r, c in zip(cols.row_ids, cols.columns["colId"])}
        ap(["BulkAddRecord", "_grist_Filters", [None, None], {"viewSectionRef": [1, 1], "colRef": [ref[target], ref["O"]], "filter": [json.dumps({"included": ["a", "b", 5, None]}), json.dumps({"excluded": ["a"]})]}])
        d0 = e.fetch_table("T"); f0 = e.fetch_table("_grist_Filters")
        try:
            ap(["RenameChoices", "T", target, m])
        except Exception as ex:
            bad.append(("C39", m, target, "raised %r" % ex)); continue
        d1 = e.fetch_table("T"); f1 = e.fetch_table("_grist_Filters")
        for c in ("C", "CL", "O"):
            for v0, v1 in zip(d0.columns[c], d1.columns[c]):
                v0, v1 = enc(v0), enc(v1)
                if c == target:
                    exp = ren(m, v0) if c == "C" else (["L"] + [ren(m, x) for x in v0[1:]] if isinstance(v0, list) else v0)
                else: exp = v0
                if v1 != exp: bad.append(("C39", m, target, c, v0, v1, exp))
        exp_f = [json.loads(x) for x in f0.columns["filter"]]
        exp_f[0] = {k: [ren(m, x) for x in v] for k, v in exp_f[0].items()}
        if [json.loads(x) for x in f1.columns["filter"]] != exp_f: bad.append(("C39", m, target, "filters", f1.columns["filter"], exp_f))
print("C39 runs", n, "bad", len([b for b in bad if b[0] == "C39"]))
# ---- C41
n41 = 0
POOL = ["x", "", None, 0, 1, 1.5, True, ["L", 1], "alt"]
e, ap = base()
ap(["AddTable", "T", [{"id": "A", "type": "Any", "isFormula": False}, {"id": "B", "type": "Int", "isFormula": False}, {"id": "F", "type": "Any", "isFormula": True, "formula": "$B"}]])
ap(["BulkAddRecord", "T", [None]*9, {"A": POOL, "B": [1, 2, 1, 2, "z", None, 1, 2, 0]}])
d = e.fetch_table("T")
import objtypes as ot
def member(v, vals):
    for w in vals:
        try:
            if v == w: return True
        except Exception: pass
    return False
for qa in [None] + [list(c) for c in itertools.combinations(POOL, 2)][:30] + [[["L", 1]], [[1]], [1, True], [0, False], [1.0]]:
    for qb in (None, [1], [2, "z"], [None], []):
        n41 += 1
        q = {}
        if qa is not None: q["A"] = [ot.decode_object(x) for x in qa]
        if qb is not None: q["B"] = qb
        got = e.fetch_table("T", query=q).row_ids
        exp = [r for i, r in enumerate(d.row_ids) if (qa is None or member(d.columns["A"][i], q["A"])) and (qb is None or member(d.columns["B"][i], qb))]
        if got != exp: bad.append(("C41", qa, qb, got, exp))
print("C41 runs", n41, "bad", len([b for b in bad if b[0] == "C41"]))
for x in bad[:12]: print(str(x)[:300])
