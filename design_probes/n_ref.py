import sys, logging, itertools, time, traceback
sys.path.insert(0, '/verif/design_probes/shim'); sys.path.insert(0, '/repo/sandbox/grist')
logging.disable(logging.CRITICAL)
import engine as engine_mod, actions, useractions, objtypes
UA = useractions.from_repr
def enc(v): return objtypes.encode_object(v)
def fixture(kind):
    e = engine_mod.Engine(); e.load_empty()
    ap = lambda *u: e.apply_user_actions([UA(list(x)) for x in u])
    ap(["AddTable", "A", [{"id": "Name", "type": "Text", "isFormula": False}]])
    ap(["AddTable", "B", [{"id": "R", "type": kind + ":A", "isFormula": False}, {"id": "X", "type": "RefList:A", "isFormula": False}]])
    ap(["BulkAddRecord", "A", [None]*3, {"Name": ["a", "b", "c"]}])
    ap(["BulkAddRecord", "B", [None]*3, {}])
    ap(["AddReverseColumn", "B", "R"])
    return e, ap
def cells(e, t, c):
    td = e.fetch_table(t); out = {}
    for r, v in zip(td.row_ids, td.columns[c]):
        v = enc(v)
        if isinstance(v, list) and v and v[0] == 'L': out[r] = v[1:]
        elif isinstance(v, int) and not isinstance(v, bool): out[r] = [v] if v else []
        elif v is None: out[r] = []
        else: out[r] = None   # alt text etc
    return out, td.row_ids
def check(e, revcol):
    msgs = []
    fwd, brows = cells(e, "B", "R"); bwd, arows = cells(e, "A", revcol)
    for b, ts in fwd.items():
        if ts is None: continue
        for a in ts:
            if a in arows and (bwd.get(a) is None or b not in bwd[a]): msgs.append("B[%s].R->%s but A[%s].%s=%s" % (b, a, a, revcol, bwd.get(a)))
    for a, bs in bwd.items():
        if bs is None: continue
        for b in bs:
            if b in brows and (fwd.get(b) is None or a not in fwd[b]): msgs.append("A[%s].%s->%s but B[%s].R=%s" % (a, revcol, b, b, fwd.get(b)))
    # dangling (C10): X and R must not point to removed A rows
    xs, _ = cells(e, "B", "X")
    for col, m in (("R", fwd), ("X", xs)):
        for b, ts in m.items():
            for a in (ts or []):
                if a not in arows: msgs.append("dangling B[%s].%s -> %s" % (b, col, a))
    return msgs
def snap(e):
    return {t: (list(e.fetch_table(t).row_ids), {c: [enc(v) for v in vs] for c, vs in e.fetch_table(t).columns.items()}) for t in sorted(e.tables)}
bad = []; n = 0; t0 = time.time()
for kind in ("Ref", "RefList"):
    rvals = [0, 1, 2, 4] if kind == "Ref" else [None, ["L", 1], ["L", 1, 2], ["L", 2, 2], ["L", 3, 1]]
    avals = [None, ["L", 1], ["L", 1, 2], ["L", 3, 3], ["L", 4]]
    steps = []
    for r in (1, 2):
        for v in rvals: steps.append(("UpdateRecord", "B", r, {"R": v}))
        for v in rvals[:3]: steps.append(("UpdateRecord", "B", r, {"X": v if kind == "RefList" else (["L", v] if v else None)}))
    for v in itertools.product(rvals[:3], repeat=2): steps.append(("BulkUpdateRecord", "B", [1, 2], {"R": list(v)}))
    for a in (1, 2):
        for v in avals: steps.append(("UpdateRecord", "A", a, {"REV": v}))
    steps += [("RemoveRecord", "A", 1), ("RemoveRecord", "B", 1), ("BulkRemoveRecord", "A", [1, 2]), ("ModifyColumn", "B", "R", {"type": ("RefList" if kind == "Ref" else "Ref") + ":A"}),
              ("ModifyColumn", "A", "REV", {"type": "Ref:B"})]
    for s1 in steps:
        for s2 in steps:
            n += 1
            e, ap = fixture(kind)
            revcol = [c for c in e.fetch_table("A").columns if c not in ("Name", "manualSort")][0]
            fix = lambda s: tuple({(revcol if k == "REV" else k): v for k, v in x.items()} if isinstance(x, dict) else (revcol if x == "REV" else x) for x in s)
            for s in (s1, s2):
                s0 = snap(e)
                try:
                    ap(list(fix(s)))
                except Exception as ex:
                    if snap(e) != s0: bad.append((kind, s1, s2, "rejected but changed: %r" % ex))
                    continue
                m = check(e, revcol)
                if m: bad.append((kind, s1, s2, m[0])); break
print("runs", n, "time", round(time.time() - t0, 1), "bad", len(bad))
seen = set()
for b in bad:
    key = (b[0], b[3][:40])
    if key in seen: continue
    seen.add(key); print(b)
    if len(seen) > 12: break
