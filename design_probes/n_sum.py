import sys, logging, itertools, time, traceback
sys.path.insert(0, '/verif/design_probes/shim'); sys.path.insert(0, '/repo/sandbox/grist')
logging.disable(logging.CRITICAL)
import engine as engine_mod, actions, useractions, objtypes
UA = useractions.from_repr

def fixture():
    e = engine_mod.Engine(); e.load_empty()
    ap = lambda *u: e.apply_user_actions([UA(list(x)) for x in u])
    ap(["AddTable", "P", [{"id": "Name", "type": "Text", "isFormula": False}]])
    ap(["BulkAddRecord", "P", [None]*2, {"Name": ["p1", "p2"]}])
    ap(["AddTable", "S", [{"id": "K", "type": "Choice", "isFormula": False},
                          {"id": "CL", "type": "ChoiceList", "isFormula": False},
                          {"id": "R", "type": "Ref:P", "isFormula": False},
                          {"id": "RL", "type": "RefList:P", "isFormula": False},
                          {"id": "N", "type": "Int", "isFormula": False}]])
    ap(["BulkAddRecord", "S", [None]*3, {"K": ["a", "b", "a"], "CL": [["L", "x"], ["L", "x", "y"], None],
                                          "R": [1, 2, 0], "RL": [["L", 1, 2], None, ["L", 2]], "N": [1, 2, 3]}])
    return e, ap

def colrefs(e):
    td = e.fetch_table("_grist_Tables_column"); tt = e.fetch_table("_grist_Tables")
    tid = {r: t for r, t in zip(tt.row_ids, tt.columns["tableId"])}
    return {(tid[p], c): r for r, p, c in zip(td.row_ids, td.columns["parentId"], td.columns["colId"])}

def check_summaries(e):
    tt = e.fetch_table("_grist_Tables")
    tc = e.fetch_table("_grist_Tables_column")
    msgs = []
    for trow, tname, src in zip(tt.row_ids, tt.columns["tableId"], tt.columns["summarySourceTable"]):
        if not src: continue
        srcname = tt.columns["tableId"][tt.row_ids.index(src)]
        gcols = [c for p, c, sc in zip(tc.columns["parentId"], tc.columns["colId"], tc.columns["summarySourceCol"]) if p == trow and sc]
        st = e.fetch_table(srcname); sm = e.fetch_table(tname)
        srccols = {c: e.tables[srcname].get_column(c) for c in gcols}
        import column as colmod
        expected = {}
        for i, rid in enumerate(st.row_ids):
            parts = []
            ok = True
            for c in gcols:
                v = st.columns[c][i]
                co = srccols[c]
                if isinstance(co, (colmod.ChoiceListColumn, colmod.ReferenceListColumn)):
                    if v is None or (isinstance(v, (list, tuple)) and len(v) == 0):
                        parts.append(["" if isinstance(co, colmod.ChoiceListColumn) else 0])
                    elif isinstance(v, (list, tuple)):
                        parts.append(sorted(set(v), key=lambda x: (str(type(x)), x)))
                    else:
                        ok = False
                else:
                    parts.append([v])
            if not ok: continue
            for key in itertools.product(*parts):
                expected.setdefault(key, []).append(rid)
        got = {}
        for i, rid in enumerate(sm.row_ids):
            key = tuple(sm.columns[c][i] for c in gcols)
            if key in got: msgs.append("%s duplicate key %s" % (tname, key))
            grp = sm.columns["group"][i]
            got[key] = list(grp._row_ids if hasattr(grp, "_row_ids") else (grp or []))
        if {k: sorted(v) for k, v in expected.items()} != got:
            msgs.append("%s by %s expected %s got %s" % (tname, gcols, expected, got))
    return msgs

VALS = {"K": ["a", "c", "", None], "CL": [None, ["L"], ["L", "x"], ["L", "y", "x", "y"], "alt"], "R": [0, 1, 2], "RL": [None, ["L", 2, 1], ["L", 1, 1]]}
bad = []; n = 0; t0 = time.time()
for g in (["K"], ["CL"], ["R"], ["RL"], ["K", "CL"], ["CL", "RL"]):
    for c in VALS:
        for v in VALS[c]:
            for row in (1, 3):
                for second in (None, ("RemoveRecord", "S", 2), ("AddRecord", "S", None, {"K": "z", "CL": ["L", "q"]}), ("RenameColumn", "S", g[0], "Q"), ("ModifyColumn", "S", "K", {"type": "ChoiceList"}), ("ModifyColumn", "S", "CL", {"type": "Choice"})):
                    n += 1
                    e, ap = fixture()
                    refs = colrefs(e)
                    try:
                        ap(["CreateViewSection", 2, 0, "record", [refs[("S", x)] for x in g], None])
                        ap(["UpdateRecord", "S", row, {c: v}])
                        if second: ap(list(second))
                        m = check_summaries(e)
                    except Exception as ex:
                        m = ["EXC " + traceback.format_exc()[-400:]]
                    if m: bad.append((g, c, v, row, second, m[0][:300]))
print("runs", n, "time", round(time.time() - t0, 1), "bad", len(bad))
for b in bad[:15]: print(b)
e, ap = fixture(); refs = colrefs(e)
ap(["CreateViewSection", 2, 0, "record", [refs[("S", "CL")], refs[("S", "RL")]], None])
ap(["UpdateRecord", "S", 1, {"CL": "alt"}])
tt = e.fetch_table("_grist_Tables"); print(tt.columns["tableId"], tt.columns["summarySourceTable"])
sm = e.fetch_table(tt.columns["tableId"][-1]); print(sm.row_ids, {k: [objtypes.encode_object(x) for x in v] for k, v in sm.columns.items()})
print(check_summaries(e))
