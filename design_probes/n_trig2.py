import sys, logging
sys.path.insert(0, '/verif/design_probes/shim'); sys.path.insert(0, '/repo/sandbox/grist')
logging.disable(logging.CRITICAL)
import engine as engine_mod, useractions
UA = useractions.from_repr
e = engine_mod.Engine(); e.load_empty()
ap = lambda *u: e.apply_user_actions([UA(list(x)) for x in u])
ap(["AddTable", "T", [{"id": "A", "type": "Int", "isFormula": False}]])
td = e.fetch_table("_grist_Tables_column"); ref = {c: r for r, c in zip(td.row_ids, td.columns["colId"])}
ap(["AddColumn", "T", "D", {"type": "Int", "isFormula": False, "formula": "$A + 1", "recalcWhen": 0, "recalcDeps": [ref["A"]]}])
ap(["AddColumn", "T", "E", {"type": "Int", "isFormula": False, "formula": "$A + 1", "recalcWhen": 0, "recalcDeps": None}])
ap(["AddRecord", "T", None, {"A": 4, "D": 77, "E": 77}])
ap(["AddRecord", "T", None, {"D": 77}])
ap(["AddRecord", "T", None, {"A": 4}])
td = e.fetch_table("T"); print({c: td.columns[c] for c in ("A", "D", "E")})
