import sys, time, z3, logging
sys.path.insert(0, '/verif/design_probes/shim'); sys.path.insert(0, '/repo/sandbox/grist')
logging.disable(logging.CRITICAL)
import types
fake = types.ModuleType('crosshair'); sys.modules['crosshair'] = fake
t = types.ModuleType('crosshair.tracers'); t.NoTracing = None; sys.modules['crosshair.tracers'] = t
c = types.ModuleType('crosshair.core'); c.realize = lambda x: x; sys.modules['crosshair.core'] = c
import p_schema3 as P

class Holes(object):
    """lazy access recorder: a hole is 'read' only if the body asked for it"""
    def __init__(self, model, vars_): self.m = model; self.v = vars_; self.read = {}
    def get(self, name):
        val = self.m.eval(self.v[name], model_completion=True).as_long()
        self.read[name] = val
        return val

def body(h):
    e = P.build(); before = P.snap(e)
    k = h.get('k')
    if k == 2:
        col = ["A", "N"][h.get('c')]; ua = ["RemoveColumn", "T", col]
    elif k == 3:
        ua = ["RenameTable", "T", P.NAMES[h.get('x')]]
    elif k == 0:
        col = ["A", "N"][h.get('c')]; ua = ["RenameColumn", "T", col, P.NAMES[h.get('x')]]
    else:
        col = ["A", "N"][h.get('c')]; ua = ["ModifyColumn", "T", col, {"type": P.TYPES[h.get('x')]}]
    try:
        ag = e.apply_user_actions([P.UA(ua)])
    except Exception:
        return P.snap(e) == before
    e.apply_user_actions([P.UA(["ApplyUndoActions", [P.actions.get_action_repr(a) for a in ag.undo]])])
    return P.snap(e) == before

vars_ = {n: z3.Int(n) for n in ('k', 'c', 'x')}
s = z3.Solver()
s.add(vars_['k'] >= 0, vars_['k'] < 4, vars_['c'] >= 0, vars_['c'] < 2, vars_['x'] >= 0, vars_['x'] < 6)
t0 = time.time(); runs = 0; bad = []; tsolve = 0
while True:
    ts = time.time(); r = s.check(); tsolve += time.time() - ts
    if r != z3.sat: break
    h = Holes(s.model(), vars_)
    ok = body(h); runs += 1
    if not ok: bad.append(dict(h.read))
    s.add(z3.Or([vars_[n] != v for n, v in h.read.items()]))     # block the cube of holes actually read
print("final", r, "runs", runs, "bad", bad, "time", round(time.time() - t0, 1), "solver s", round(tsolve, 3))
