import usertypes, objtypes
from typing import Union, List, Optional

V = Union[int, bool, str, None, float, List[int]]
def _same(a, b):
    if isinstance(a, float) and isinstance(b, float) and a != a and b != b:
        return True
    return type(a) == type(b) and a == b

def int_idem(v: V) -> bool:
    """
    pre: not isinstance(v, str) or len(v) <= 3
    pre: not isinstance(v, list) or len(v) <= 2
    post: _
    """
    t = usertypes.Int()
    a = t.convert(v)
    ok = a is None or isinstance(a, str) or (type(a) is int and objtypes.is_int_short(a))
    return ok and _same(t.convert(a), a)

def text_idem(v: V) -> bool:
    """
    pre: not isinstance(v, str) or len(v) <= 3
    pre: not isinstance(v, list) or len(v) <= 2
    post: _
    """
    t = usertypes.Text()
    a = t.convert(v)
    ok = a is None or isinstance(a, str)
    return ok and _same(t.convert(a), a)

def bool_idem(v: V) -> bool:
    """
    pre: not isinstance(v, str) or len(v) <= 3
    pre: not isinstance(v, list) or len(v) <= 2
    post: _
    """
    t = usertypes.Bool()
    a = t.convert(v)
    ok = isinstance(a, (bool, str))
    return ok and _same(t.convert(a), a)
