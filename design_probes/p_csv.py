import io, csv
from imports import import_csv
from typing import List
from crosshair.tracers import NoTracing
from crosshair.core import realize

class FakeReader(object):
    def __init__(self, rows): self.rows = rows; self.dialect = csv.excel
    def __iter__(self): return iter(self.rows)

def keeps_cells(k: int, w1: int, w2: int, hdr: bool) -> bool:
    """
    pre: 95 <= k <= 103 and 1 <= w1 <= 3 and 1 <= w2 <= 3
    post: _
    """
    k = realize(k); w1 = realize(w1); w2 = realize(w2); hdr = realize(hdr)
    with NoTracing():
        rows = [["f%d_%d" % (i, j) for j in range(w1)] for i in range(k)] + [["z%d" % j for j in range(w2)]]
        expect = [list(r) for r in rows]
        real = import_csv.csv
        fake = type(csv)('fakecsv'); fake.reader = lambda f, **kw: FakeReader(rows); fake.Sniffer = csv.Sniffer; fake.Error = csv.Error; fake.excel = csv.excel
        import_csv.csv = fake
        try:
            opts, tables = import_csv._parse_open_file(io.StringIO("a,b\n"), {"delimiter": ",", "quotechar": '"', "include_col_names_as_headers": hdr})
        finally:
            import_csv.csv = real
        if not tables: return False
        data = tables[0]["table_data"]
        off = 1 if hdr else 0
        for i, r in enumerate(expect[off:]):
            for j, c in enumerate(r):
                if j >= len(data) or data[j][i] != c:
                    return False
        return True
