import objtypes, marshal
from typing import Union, List, Dict, Optional
J = Union[int, bool, str, None, float, List[Union[int, str, None, List[int]]], Dict[str, Union[int, str, None]]]

def _safe(x):
    t = type(x)
    if t in (str, int, float, bool, type(None)): return True
    if t in (list, tuple): return all(_safe(i) for i in x)
    if t is dict: return all(type(k) is str and _safe(v) for k, v in x.items())
    return False

def enc_rt(v: J) -> bool:
    """
    pre: not isinstance(v, str) or len(v) <= 2
    post: _
    """
    e = objtypes.encode_object(v)
    if not _safe(e): return False
    d = objtypes.decode_object(e)
    e2 = objtypes.encode_object(d)
    return objtypes.equal_encoding(d, v) or e2 == e
