import sys, logging
import engine as engine_mod, actions, useractions, table_data_set
from crosshair.tracers import NoTracing
logging.disable(logging.CRITICAL)
UA = useractions.from_repr

def build():
    e = engine_mod.Engine()
    e.load_empty()
    stored = []
    def ap(ua):
        ag = e.apply_user_actions([UA(ua)])
        stored.extend(ag.stored)
    ap(["InitNewDoc"]) if False else None
    ap(["AddTable", "T", [
        {"id": "A", "type": "Text", "isFormula": False},
        {"id": "N", "type": "Int", "isFormula": False},
        {"id": "B", "type": "Any", "isFormula": True, "formula": "$A + 'x' if $N > 1 else $N"},
    ]])
    ap(["BulkAddRecord", "T", [None, None, None], {"A": ["p", "q", "r"], "N": [1, 2, 3]}])
    return e

def snap(e, tables):
    out = {}
    for t in tables:
        td = e.fetch_table(t)
        out[t] = (list(td.row_ids), {c: list(vs) for c, vs in td.columns.items()})
    return out

def undo_restores(s: str, n: int) -> bool:
    """
    pre: len(s) <= 2
    post: _
    """
    with NoTracing():
        e = build()
        tabs = sorted(e.tables)
        before = snap(e, tabs)
    ag = e.apply_user_actions([UA(["UpdateRecord", "T", 2, {"A": s, "N": n}])])
    after = snap(e, ["T"])
    # formula semantic check
    b = after["T"][1]["B"][1]
    e.apply_user_actions([UA(["ApplyUndoActions", [actions.get_action_repr(a) for a in ag.undo]])])
    return snap(e, tabs) == before
