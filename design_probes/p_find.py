import records, sort_key
from typing import List, Optional
from crosshair.tracers import NoTracing

class Col(object):
    def __init__(self, vals): self.vals = vals
    def get_cell_value(self, r): return self.vals[r]
class Tab(object):
    table_id = "T"
    def __init__(self, vals):
        self.col = Col(vals)
        self._identity_relation = None
        t = self
        class Record(records.Record): _table = t
        class RecordSet(records.RecordSet): _table = t
        self.Record = Record; self.RecordSet = RecordSet
    def get_column(self, c): return self.col

def find_lt(vals: List[int], probe: int) -> bool:
    """
    pre: 1 <= len(vals) <= 4
    pre: all(0 <= v <= 3 for v in vals)
    post: _
    """
    t = Tab([None] + vals)
    key = sort_key.make_sort_key(t, ("X",))
    ids = sorted(range(1, len(vals) + 1), key=key)
    rs = t.RecordSet(ids, relation="r", sort_key=key)
    got = rs.find.lt(probe)._row_id
    exp = 0
    for r in ids:
        if vals[r - 1] < probe:
            exp = r
    got2 = rs.find.ge(probe)._row_id
    exp2 = 0
    for r in reversed(ids):
        if vals[r - 1] >= probe:
            exp2 = r
    return got == exp and got2 == exp2
