import sys, time, z3, types
sys.path.insert(0, '/repo/sandbox/grist')
import relabeling, symlite
from symlite import Ctx
F = z3.Float64(); RM = z3.RNE()
def fv(x): return z3.FPVal(float(x), F)
def w(x):
    if isinstance(x, SF): return x.e
    if isinstance(x, SI): return z3.fpSignedToFP(RM, x.e, F)
    return fv(x)
class SF(object):
    __slots__ = ('e',)
    def __init__(self, e): self.e = e
    def __add__(s, o): return SF(z3.fpAdd(RM, s.e, w(o)))
    __radd__ = __add__
    def __sub__(s, o): return SF(z3.fpSub(RM, s.e, w(o)))
    def __rsub__(s, o): return SF(z3.fpSub(RM, w(o), s.e))
    def __mul__(s, o): return SF(z3.fpMul(RM, s.e, w(o)))
    __rmul__ = __mul__
    def __truediv__(s, o): return SF(z3.fpDiv(RM, s.e, w(o)))
    def __float__(s): return s          # float(x) on a proxy is identity (documented stub)
    def _c(s, o, f): return Ctx.cur.branch(f(s.e, w(o)))
    def __lt__(s, o): return s._c(o, z3.fpLT)
    def __le__(s, o): return s._c(o, z3.fpLEQ)
    def __gt__(s, o): return s._c(o, z3.fpGT)
    def __ge__(s, o): return s._c(o, z3.fpGEQ)
    def __eq__(s, o): return s._c(o, z3.fpEQ)
    def __ne__(s, o): return s._c(o, z3.fpNEQ)
    def __bool__(s): return Ctx.cur.branch(z3.Not(z3.fpIsZero(s.e)))
    __hash__ = None
class SI(object):   # 64-bit signed int as BV
    __slots__ = ('e',)
    def __init__(self, e): self.e = e
    def __add__(s, o): return SI(s.e + (o.e if isinstance(o, SI) else z3.BitVecVal(o, 64)))
    __iadd__ = __add__
    def __sub__(s, o): return SI(s.e - (o.e if isinstance(o, SI) else z3.BitVecVal(o, 64)))
    __isub__ = __sub__
    def __ge__(s, o): return Ctx.cur.branch(s.e >= o)
class FakeStruct(object):
    @staticmethod
    def pack(fmt, x):
        return ('d', x) if fmt == '<d' else ('q', x)
    @staticmethod
    def unpack(fmt, b):
        kind, x = b
        if fmt == '<q' and kind == 'd':
            return (SI(z3.fpToIEEEBV(x.e if isinstance(x, SF) else fv(x))),)
        if fmt == '<d' and kind == 'q':
            return (SF(z3.fpBVToFP(x.e, F)),)
        raise Exception("unsupported")
relabeling.struct = FakeStruct
import builtins
_float = float
class FloatShim(object):
    def __call__(self, x): return x if isinstance(x, SF) else _float(x)
relabeling.float = FloatShim()

def lemma(count):
    def setup(c):
        c.s = z3.FP('s', F); c.e_ = z3.FP('e', F)
        for v in (c.s, c.e_): c.solver.add(z3.Not(z3.fpIsNaN(v)), z3.Not(z3.fpIsInf(v)))
        c.solver.add(z3.fpGEQ(c.s, fv(0.0)), z3.fpLT(c.s, c.e_))
    def fn(c):
        s, e = SF(c.s), SF(c.e_)
        rs = relabeling.get_range(s, e, count)
        limit = relabeling.prevfloat(e)
        chain = [c.s] + [w(r) for r in rs] + [w(limit)]
        ok = z3.And([z3.fpLEQ(a, b) for a, b in zip(chain, chain[1:])] + [z3.fpLT(w(limit), c.e_)])
        return z3.Not(ok)
    return symlite.explore(fn, setup)
for count in (1, 2):
    t = time.time(); print(count, lemma(count), round(time.time() - t, 1))
