import re, keyword
import identifiers
from typing import Optional, List
ALPHA = "aZ_09 -éßıﬁ١²中́$"

def col_ident(s: str, a: int) -> bool:
    """
    pre: len(s) <= 2
    pre: all(c in ALPHA for c in s)
    pre: 0 <= a < 4
    post: _
    """
    avoid = [set(), {"A"}, {"a", "A2"}, {"DEF", "c0"}][a]
    r = identifiers.pick_col_ident(s, avoid=avoid)
    return (r.isidentifier() and not keyword.iskeyword(r) and not r.startswith('_')
            and not r[0].isdigit() and r.upper() not in {x.upper() for x in avoid})
