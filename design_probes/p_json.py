from imports import import_json
from typing import Union, List, Dict, Optional
S = Union[int, str, None, bool]
J1 = Union[int, str, None, Dict[str, S], List[S]]
J2 = Union[S, Dict[str, J1], List[J1]]

def cols_equal_len(data: List[J2]) -> bool:
    """
    pre: len(data) <= 2
    post: _
    """
    out = import_json.dumps(data, "N")
    for t in out["tables"]:
        lens = {len(c) for c in t["table_data"]}
        if len(lens) > 1:
            return False
        if len(t["column_metadata"]) != len(t["table_data"]):
            return False
    return True
