import json, migrations, table_data_set, actions, test_migrations, schema
from crosshair.tracers import NoTracing
from typing import Union, List, Dict, Optional
S = Union[int, str, None, bool, float]
J = Union[S, Dict[str, Union[S, List[int]]], List[S]]

class Box(object):
    val = None
    raise_ = False
def fake_loads(text, *a, **k):
    if Box.raise_:
        raise ValueError("bad json")
    return Box.val

def doc_at(v):
    td = table_data_set.TableDataSet()
    td.apply_doc_actions(test_migrations.schema_version0())
    for k in range(1, v + 1):
        f = migrations.all_migrations.get(k)
        if f: f(td)
    td.apply_doc_action(actions.AddRecord('_grist_DocInfo', 1, {'schemaVersion': v}))
    return td

def mig45_total(val: J, bad: bool) -> bool:
    """
    pre: not isinstance(val, dict) or all(k in ('timeCreated', 'timeUpdated', 'resolved', 'x') for k in val)
    post: _
    """
    with NoTracing():
        td = doc_at(44)
        td.apply_doc_action(actions.AddRecord('_grist_Cells', 1, {'content': 'X'}))
    Box.val = val; Box.raise_ = bad
    real = migrations.json.loads
    migrations.json = type(json)('fakejson'); migrations.json.loads = fake_loads; migrations.json.dumps = json.dumps
    try:
        migrations.migration45(td)
        return True
    finally:
        migrations.json = json
