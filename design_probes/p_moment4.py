import sys, time, z3
sys.path.insert(0, '/repo/sandbox/grist')
import moment, symlite
from symlite import SInt, Ctx
US = 1000000
class TD(object):
    def __init__(self, days=0, seconds=0, microseconds=0, milliseconds=0, minutes=0, hours=0, weeks=0, _us=None):
        self.us = _us if _us is not None else (((weeks*7 + days)*24 + hours)*60 + minutes)*60*US + seconds*US + milliseconds*1000 + microseconds
    def total_seconds(self): return self.us / US
    def __neg__(self): return TD(_us=-self.us)
    def __eq__(self, o): return isinstance(o, TD) and bool(self.us == o.us)
    def __hash__(self): return hash(self.us)
    def __sub__(self, o): return TD(_us=self.us - o.us)
    def __add__(self, o): return TD(_us=self.us + o.us) if isinstance(o, TD) else NotImplemented
class DT(object):
    def __init__(self, us, tzinfo=None): self.us = us; self.tzinfo = tzinfo
    def replace(self, tzinfo=True): return DT(self.us, tzinfo)
    def __sub__(self, o):
        return DT(self.us - o.us, self.tzinfo) if isinstance(o, TD) else TD(_us=self.us - o.us)
    def __add__(self, o): return DT(self.us + o.us, self.tzinfo)
    def utcoffset(self): return None if self.tzinfo is None else self.tzinfo.utcoffset(self)
    def astimezone(self, tz):
        off = self.utcoffset()
        return tz.fromutc(DT(self.us - off.us, tz))
moment.timedelta = TD
moment.EPOCH = DT(0)
moment.EPOCH_UTC = DT(0, moment.TZ_UTC)

def check_zone(name):
    def setup(c):
        c.ts = z3.Int('ts')
        c.solver.add(c.ts >= -10**11, c.ts <= 10**11)
    def fn(c):
        Z = moment.Zone(name)
        ts = SInt(c.ts)
        dt = moment.ts_to_dt.__wrapped__(ts, Z)
        back = moment.dt_to_ts(dt)
        return back.e != z3.ToReal(c.ts)
    return symlite.explore(fn, setup)

t0 = time.time()
names = sorted(moment.get_tz_data())
tot = 0
for n in names[:40] + ['America/New_York', 'Europe/London', 'Australia/Lord_Howe']:
    t = time.time()
    paths, queries, bad = check_zone(n)
    tot += paths
    print(n, paths, queries, len(bad), round(time.time()-t, 2), bad[:1])
print('total', tot, time.time()-t0, len(names))
