import sys, time, z3
sys.path.insert(0, '/repo/sandbox/grist')
import moment, symlite
from symlite import SInt, Ctx, _w
exec(open('/verif/design_probes/p_moment4.py').read().split("def check_zone")[0].split("import moment, symlite")[1].replace("from symlite import SInt, Ctx", ""))
# date model: a date is an integer day number; date - DATE_EPOCH -> TD(days); DATE_EPOCH + TD -> floor days
class D(object):
    def __init__(self, days): self.days = days
    def __sub__(self, o): return TD(_us=(self.days - o.days) * 86400 * US)
    def __add__(self, td):
        us = td.us
        if isinstance(us, SInt):
            return D(self.days + SInt(z3.ToInt(_w(us) / (86400 * US)) if z3.is_real(_w(us)) else _w(us) / z3.IntVal(86400 * US)))
        return D(self.days + us // (86400 * US))
moment.DATE_EPOCH = D(0)

def ob3(name):
    """local naive instant L (seconds): offset chosen is one of the offsets in force around the UTC candidates."""
    def setup(c):
        c.L = z3.Int('L'); c.solver.add(c.L >= -9*10**9, c.L <= 9*10**9)
    def fn(c):
        Z = moment.Zone(name)
        L = DT(SInt(c.L) * US)
        off = Z.dt_offset(L)                      # real code; TD with concrete us on each path
        u_ms = (SInt(c.L) * US - off.us) / 1000   # candidate UTC instant in ms
        k = Z._index(u_ms)                        # real code (bisect), concrete on each path
        cands = {Z.offsets[j] for j in (k - 1, k, k + 1) if 0 <= j < len(Z.offsets)}
        ok = (-off.us // (60 * US)) in cands
        return z3.BoolVal(not ok)
    return symlite.explore(fn, setup)
def ob2(name):
    def setup(c):
        c.d = z3.Int('d'); c.solver.add(c.d >= -100000, c.d <= 100000)
    def fn(c):
        Z = moment.Zone(name)
        d = D(SInt(c.d))
        ts = moment.date_to_ts(d)                   # real code, UTC midnight
        back = moment.ts_to_date.__wrapped__(ts)
        v1 = _w(back.days) != c.d
        ts2 = moment.date_to_ts(d, Z)               # real code with zone
        # midnight local -> going back through the zone offset gives the same date
        off = Z.offset(ts2 * 1000)
        back2 = moment.ts_to_date.__wrapped__(ts2 + off.total_seconds())
        v2 = _w(back2.days) != c.d
        return z3.Or(v1, v2)
    return symlite.explore(fn, setup)
for n in ['UTC', 'America/New_York', 'Europe/London', 'Australia/Lord_Howe', 'Asia/Kathmandu', 'Pacific/Apia', 'Africa/Casablanca']:
    for name, f in (("ob2", ob2), ("ob3", ob3)):
        t = time.time()
        try:
            p, q, bad = f(n); print(n, name, p, q, len(bad), round(time.time() - t, 2), bad[:1])
        except Exception as ex:
            import traceback; traceback.print_exc(); break
