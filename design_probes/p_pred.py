import predicate_formula as pf
from crosshair.tracers import NoTracing
from typing import Union

class Rec(object):
    def __init__(self, **kw): self.__dict__.update(kw)

def ev(node, env):
    k = node[0]; a = node[1:]
    if k == 'And': return all(ev(x, env) for x in a)
    if k == 'Or': return any(ev(x, env) for x in a)
    if k == 'Not': return not ev(a[0], env)
    if k == 'Const': return a[0]
    if k == 'Name': return env[a[0]]
    if k == 'Attr': return getattr(ev(a[0], env), a[1])
    if k == 'List': return [ev(x, env) for x in a]
    if k == 'Comment': return ev(a[0], env)
    l, r = ev(a[0], env), ev(a[1], env)
    return {'Add': lambda: l + r, 'Sub': lambda: l - r, 'Mult': lambda: l * r, 'Mod': lambda: l % r,
            'Eq': lambda: l == r, 'NotEq': lambda: l != r, 'Lt': lambda: l < r, 'LtE': lambda: l <= r,
            'Gt': lambda: l > r, 'GtE': lambda: l >= r, 'In': lambda: l in r, 'NotIn': lambda: l not in r,
            'Is': lambda: l is r, 'IsNot': lambda: l is not r}[k]()

EXPRS = ["$a + $b * 2 > 3 and not $c", "$a - 1 in [$b, 2, 3] or $c", "($a % 3 == $b) != $c  # hi",
         "$a <= $b < 5" , "not ($a > $b or $c) and $a != 2"]

def agree(i: int, a: int, b: int, c: bool) -> bool:
    """
    pre: 0 <= i < 5
    post: _
    """
    with NoTracing():
        pass
    text = EXPRS[i]
    try:
        tree = pf.parse_predicate_formula(text)
    except SyntaxError:
        return i == 3
    env = {'rec': Rec(a=a, b=b, c=c)}
    py = eval(text.replace('$', 'rec.'), {}, dict(env))
    return bool(ev(tree, env)) == bool(py)
