import sys, logging
import engine as engine_mod, actions, useractions
from crosshair.tracers import NoTracing
logging.disable(logging.CRITICAL)
UA = useractions.from_repr

def build():
    e = engine_mod.Engine()
    e.load_empty()
    e.apply_user_actions([UA(["AddTable", "A", [{"id": "Name", "type": "Text", "isFormula": False}]])])
    e.apply_user_actions([UA(["AddTable", "B", [
        {"id": "R", "type": "Ref:A", "isFormula": False},
        {"id": "L", "type": "RefList:A", "isFormula": False},
        {"id": "N", "type": "Text", "isFormula": True, "formula": "$R.Name"},
    ]])])
    e.apply_user_actions([UA(["BulkAddRecord", "A", [None]*3, {"Name": ["a", "b", "c"]}])])
    e.apply_user_actions([UA(["BulkAddRecord", "B", [None]*3, {"R": [1, 2, 3], "L": [["L", 1, 2], ["L", 2, 3], None]}])])
    return e

def no_dangling(r1: int, v1: int, r2: int, l1: int, l2: int, x: int) -> bool:
    """
    pre: 1 <= r1 <= 3 and 0 <= v1 <= 3 and 1 <= r2 <= 3 and 1 <= l1 <= 3 and 1 <= l2 <= 3 and 1 <= x <= 3
    post: _
    """
    with NoTracing():
        e = build()
    e.apply_user_actions([UA(["UpdateRecord", "B", r1, {"R": v1}]),
                          UA(["UpdateRecord", "B", r2, {"L": ["L", l1, l2]}])])
    e.apply_user_actions([UA(["RemoveRecord", "A", x])])
    a_ids = set(e.fetch_table("A").row_ids)
    b = e.fetch_table("B")
    ok = True
    for v in b.columns["R"]:
        ok = ok and (v == 0 or v in a_ids)
    for v in b.columns["L"]:
        if v is not None:
            ok = ok and len(v) > 0 and all(i in a_ids for i in v)
    return ok
