import sys, time, z3
sys.path.insert(0, '/verif/design_probes/shim'); sys.path.insert(0, '/repo/sandbox/grist')
import symlite
from symlite import SInt, Ctx, _w
import functions.schedule as sch

def sint(x): return x if isinstance(x, SInt) else SInt(z3.IntVal(x))
# add floor-div / mod to SInt for the model
def _fd(a, b): return SInt(_w(a) / b) if False else SInt(z3.ToInt(z3.ToReal(_w(a)) / b)) if False else SInt(_w(sint(a)) / z3.IntVal(b))   # z3 Int '/' is floor div for positive divisor
def _mod(a, b): return SInt(_w(sint(a)) % z3.IntVal(b))
SInt.__floordiv__ = lambda s, o: _fd(s, o)
SInt.__mod__ = lambda s, o: _mod(s, o)

class TD(object):
    def __init__(self, days=0, seconds=0, microseconds=0, milliseconds=0, minutes=0, hours=0, weeks=0, _s=None):
        self.s = _s if _s is not None else (((weeks*7 + days)*24 + hours)*60 + minutes)*60 + seconds
    def __add__(self, o): return TD(_s=self.s + o.s) if isinstance(o, TD) else NotImplemented
    __iadd__ = __add__
class DT(object):
    """naive datetime as integer seconds since 1970-01-01 (a Thursday)."""
    tzinfo = None
    def __init__(self, s): self.s = s
    def __add__(self, o): return DT(self.s + o.s)
    def __sub__(self, o): return DT(self.s - o.s) if isinstance(o, TD) else TD(_s=self.s - o.s)
    def __lt__(self, o): return self.s < o.s
    def __gt__(self, o): return self.s > o.s
    def isoweekday(self):
        return (self.s // 86400 + 3) % 7 + 1
    def replace(self, hour=None, minute=None, second=None, microsecond=None):
        s = self.s
        if hour == 0 and minute == 0 and second == 0: return DT(s - s % 86400)
        if hour is None and minute == 0 and second == 0: return DT(s - s % 3600)
        if hour is None and minute is None and second == 0: return DT(s - s % 60)
        if hour is None and minute is None and second is None: return DT(s)
        raise Exception("unsupported replace")
    def timetz(self): return ('time', self.s % 86400)
    @staticmethod
    def combine(d, t): return DT(d.s - d.s % 86400 + t[1])
sch.datetime = DT; sch.timedelta = TD
sch.DTIME = lambda x: x
sch.DATEADD = lambda d, months=0: d

def check(spec, count, unit_s, n, slots_s):
    def setup(c):
        c.start = z3.Int('start'); c.end = z3.Int('end')
    def fn(c):
        start = DT(SInt(c.start)); end = DT(SInt(c.end))
        out = list(sch.SCHEDULE(spec, start=start, count=count, end=end))
        # reference: base = floor(start/unit)*unit ; occurrences base + k*n*unit + slot
        base = c.start - c.start % unit_s
        conds = []
        prev = None
        for o in out:
            oe = _w(o.s)
            conds.append(oe >= c.start); conds.append(oe <= c.end)
            conds.append(z3.Or([z3.And((oe - base - sl) % (n * unit_s) == 0, oe - base - sl >= 0) for sl in slots_s]))
            if prev is not None: conds.append(prev < oe)
            prev = oe
        # completeness: no scheduled time t in [start, min(end, last)] missing -> check first element is minimal
        t = z3.Int('t')
        member = z3.Or([z3.And((t - base - sl) % (n * unit_s) == 0, t - base - sl >= 0) for sl in slots_s])
        inwin = z3.And(t >= c.start, t <= c.end, member)
        if len(out) < count:
            # then every member in window must be in out
            miss = z3.And(inwin, z3.And([t != _w(o.s) for o in out]) if out else True)
        else:
            last = _w(out[-1].s)
            miss = z3.And(inwin, t < last, z3.And([t != _w(o.s) for o in out]))
        return z3.Or(z3.Not(z3.And(conds)) if conds else False, miss)
    return symlite.explore(fn, setup)

for spec, count, unit, n, slots in [("daily: 07:30, 21:00", 3, 86400, 1, [7*3600+1800, 21*3600]),
                                    ("2-day: 12am, 4pm, +1d 8am", 3, 86400, 2, [0, 16*3600, 86400+8*3600]),
                                    ("hourly: :15, :45", 3, 3600, 1, [900, 2700]),
                                    ("2-weeks: Mo, +1w Tu", 2, 7*86400, 2, [86400, 7*86400+2*86400])]:
    t = time.time()
    try:
        print(spec, check(spec, count, unit, n, slots), round(time.time()-t, 1))
    except Exception as ex:
        import traceback; traceback.print_exc()
