import sys, logging, time
import engine as engine_mod, actions, useractions, table_data_set, schema
from crosshair.tracers import NoTracing
from crosshair.core import realize
logging.disable(logging.CRITICAL)
UA = useractions.from_repr

def build():
    e = engine_mod.Engine()
    e.load_empty()
    e.apply_user_actions([UA(["AddTable", "T", [
        {"id": "A", "type": "Text", "isFormula": False},
        {"id": "N", "type": "Int", "isFormula": False},
        {"id": "B", "type": "Any", "isFormula": True, "formula": "$A + 'x' if $N > 1 else $N"},
    ]])])
    e.apply_user_actions([UA(["AddTable", "U", [
        {"id": "R", "type": "Ref:T", "isFormula": False},
        {"id": "F", "type": "Any", "isFormula": True, "formula": "$R.A"},
    ]])])
    e.apply_user_actions([UA(["BulkAddRecord", "T", [None, None, None], {"A": ["p", "q", "r"], "N": [1, 2, 3]}])])
    e.apply_user_actions([UA(["BulkAddRecord", "U", [None, None], {"R": [1, 3]}])])
    return e

def snap(e):
    out = {}
    for t in sorted(e.tables):
        td = e.fetch_table(t)
        out[t] = (list(td.row_ids), {c: list(vs) for c, vs in td.columns.items()})
    return out

NAMES = ["A", "Z", "def", "n", "a b", ""]
TYPES = ["Text", "Int", "Int", "Bool", "Any", "Choice"]
def undo_schema(k: int, c: int, x: int) -> bool:
    """
    pre: 0 <= k < 4 and 0 <= c < 2 and 0 <= x < 6
    post: _
    """
    k = realize(k); c = realize(c); x = realize(x)
    with NoTracing():
        return body(k, c, x)

def body(k, c, x):
    e = build()
    before = snap(e)
    col = ["A", "N"][c]
    if k == 0:
        ua = ["RenameColumn", "T", col, NAMES[x]]
    elif k == 1:
        ua = ["ModifyColumn", "T", col, {"type": TYPES[x]}]
    elif k == 2:
        ua = ["RemoveColumn", "T", col]
    else:
        ua = ["RenameTable", "T", NAMES[x]]
    try:
        ag = e.apply_user_actions([UA(ua)])
    except Exception:
        return snap(e) == before
    e.apply_user_actions([UA(["ApplyUndoActions", [actions.get_action_repr(a) for a in ag.undo]])])
    return snap(e) == before
