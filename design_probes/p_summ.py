import action_summary, actions, objtypes
from typing import Union, List, Tuple, Optional
V = Union[int, float, str, None, bool]

def _strict(a, b):
    if isinstance(a, float) and isinstance(b, float) and a != a and b != b: return True
    return type(a) == type(b) and a == b

def undo_restores(b1: V, a1: V, b2: V, a2: V, same_row: bool) -> bool:
    """
    pre: not isinstance(b1, str) or len(b1) <= 1
    pre: not isinstance(a1, str) or len(a1) <= 1
    pre: not isinstance(b2, str) or len(b2) <= 1
    pre: not isinstance(a2, str) or len(a2) <= 1
    post: _
    """
    # model: column X of table T with rows 1,2 holding b1 (row1) and b2 (row2) before.
    s = action_summary.ActionSummary()
    pre = {1: b1, 2: b2}
    cur = dict(pre)
    s.add_changes("T", "X", [(1, cur[1], a1)]); cur[1] = a1
    r = 1 if same_row else 2
    s.add_changes("T", "X", [(r, cur[r], a2)]); cur[r] = a2
    stored, undo = [], []
    s.convert_deltas_to_actions(stored, undo)
    # apply stored to pre -> must equal cur (by encoding); apply undo to cur -> must equal pre strictly
    st = dict(pre)
    for a in stored:
        a = a if isinstance(a, actions.BulkUpdateRecord) else actions.BulkUpdateRecord(a.table_id, [a.row_id], {k: [v] for k, v in a.columns.items()})
        for i, rid in enumerate(a.row_ids): st[rid] = a.columns["X"][i]
    ok1 = all(objtypes.equal_encoding(st[k], cur[k]) for k in cur)
    un = dict(cur)
    for a in reversed(undo):
        a = a if isinstance(a, actions.BulkUpdateRecord) else actions.BulkUpdateRecord(a.table_id, [a.row_id], {k: [v] for k, v in a.columns.items()})
        for i, rid in enumerate(a.row_ids): un[rid] = a.columns["X"][i]
    ok2 = all(_strict(un[k], pre[k]) for k in pre)
    return ok1 and ok2
