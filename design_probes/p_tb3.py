import textbuilder
ALPHA = "ab$"
def replacer_ok(text: str, s1: int, e1: int, n1: str, s2: int, e2: int, n2: str, ps: int, pe: int) -> bool:
    """
    pre: len(text) <= 4 and len(n1) <= 2 and len(n2) <= 2
    pre: all(c in ALPHA for c in text) and all(c in ALPHA for c in n1) and all(c in ALPHA for c in n2)
    pre: 0 <= s1 <= e1 <= s2 <= e2 <= len(text)
    pre: not (s1 == e1 == s2 == e2)
    pre: 0 <= ps <= pe
    post: _
    """
    p1 = textbuilder.make_patch(text, s1, e1, n1)
    p2 = textbuilder.make_patch(text, s2, e2, n2)
    src = textbuilder.Text(text, "V")
    r = textbuilder.Replacer(src, [p1, p2])
    out = r.get_text()
    expect = text[:s1] + n1 + text[e1:s2] + n2 + text[e2:]
    if out != expect:
        return False
    if pe > len(out):
        return True
    # map back a patch of the output that lies entirely in unchanged text
    o1s = s1; o1e = s1 + len(n1); o2s = o1e + (s2 - e1); o2e = o2s + len(n2)
    inside = (pe < o1s or (pe == o1s and e1 - s1 == len(n1) and len(n1) > 0)) or (ps >= o1e and (pe < o2s or (pe == o2s and len(n2) > 0 and e2 - s2 == len(n2)))) or (ps >= o2e)
    if not inside or ps == pe:
        return True
    patch = textbuilder.make_patch(out, ps, pe, "Z")
    t, v, back = r.map_back_patch(patch)
    return t == text and v == "V" and text[back.start:back.end] == out[ps:pe] and back.new_text == "Z"
