import treeview
from typing import List, Tuple
from collections import namedtuple
Item = namedtuple('Item', 'id indentation')

def fix(indents: List[int], deleted: List[bool]) -> bool:
    """
    pre: 1 <= len(indents) <= 4 and len(deleted) == len(indents)
    pre: all(0 <= x <= 4 for x in indents)
    post: _
    """
    items = [Item(i + 1, ind) for i, ind in enumerate(indents)]
    del_ids = {i + 1 for i, d in enumerate(deleted) if d}
    fixes = dict(treeview.fix_indents(items, del_ids))
    ok = True
    prev = -1
    for it in items:
        if it.id in del_ids:
            ok = ok and it.id not in fixes
            continue
        new = fixes.get(it.id, it.indentation)
        ok = ok and new <= it.indentation and new <= prev + 1 and new >= 0
        prev = new
    return ok
