# Minimal prototype: z3-backed int proxy + DFS path exploration by re-execution.
import z3, time

class Abort(BaseException): pass

class Ctx(object):
    cur = None
    def __init__(self):
        self.solver = z3.Solver()
        self.decisions = []      # script to follow
        self.pos = 0
        self.path = []
        self.queries = 0
    def branch(self, cond):
        # cond: z3 BoolRef. returns python bool. explores both.
        if self.pos < len(self.decisions):
            d = self.decisions[self.pos]
        else:
            # try True first if feasible
            self.queries += 1
            self.solver.push(); self.solver.add(cond); r = self.solver.check(); self.solver.pop()
            t_ok = (r == z3.sat)
            self.queries += 1
            self.solver.push(); self.solver.add(z3.Not(cond)); r2 = self.solver.check(); self.solver.pop()
            f_ok = (r2 == z3.sat)
            if t_ok and f_ok:
                d = [True, True]   # [value, other_pending]
            elif t_ok:
                d = [True, False]
            elif f_ok:
                d = [False, False]
            else:
                raise Abort()
            self.decisions.append(d)
        self.pos += 1
        self.solver.add(cond if d[0] else z3.Not(cond))
        return d[0]

def explore(fn, setup):
    decisions = []
    paths = 0; queries = 0; bad = []
    while True:
        c = Ctx(); c.decisions = decisions; Ctx.cur = c
        setup(c)
        try:
            viol = fn(c)   # returns z3 Bool of violation condition or None
            paths += 1
            if viol is not None:
                c.solver.push(); c.solver.add(viol); queries += 1
                r = c.solver.check()
                if r == z3.sat: bad.append(c.solver.model())
                elif r != z3.unsat: bad.append('unknown')
                c.solver.pop()
        except Abort:
            pass
        queries += c.queries
        # backtrack
        while decisions and not decisions[-1][1]:
            decisions.pop()
        if not decisions: break
        decisions[-1] = [not decisions[-1][0], False]
    return paths, queries, bad

def _w(x):
    return x.e if isinstance(x, SInt) else x

class SInt(object):
    __slots__ = ('e',)
    def __init__(self, e): self.e = e
    def _b(self, o, f):
        return SInt(f(self.e, _w(o)))
    def __add__(self, o): return self._b(o, lambda a,b: a+b)
    __radd__ = __add__
    def __sub__(self, o): return self._b(o, lambda a,b: a-b)
    def __rsub__(self, o): return self._b(o, lambda a,b: b-a)
    def __mul__(self, o): return self._b(o, lambda a,b: a*b)
    __rmul__ = __mul__
    def __neg__(self): return SInt(-self.e)
    def __truediv__(self, o):
        # exact rational
        return SInt(z3.ToReal(self.e) / _w(o)) if z3.is_int(self.e) else SInt(self.e / _w(o))
    def _c(self, o, f):
        return Ctx.cur.branch(f(self.e, _w(o)))
    def __lt__(self, o): return self._c(o, lambda a,b: a<b)
    def __le__(self, o): return self._c(o, lambda a,b: a<=b)
    def __gt__(self, o): return self._c(o, lambda a,b: a>b)
    def __ge__(self, o): return self._c(o, lambda a,b: a>=b)
    def __eq__(self, o): return self._c(o, lambda a,b: a==b)
    def __ne__(self, o): return self._c(o, lambda a,b: a!=b)
    __hash__ = None
