"""E2-enum driver for the history properties that share one run: C01 C02 C03 C04 C08 C20(c) C31.

A shard = (fixture, mode, kind of the first action, pools).  Inside a shard the remaining holes of
the bundle are z3 variables enumerated by enumz3.allsat with read-set cube blocking; every run is
the real engine on native values, executed in a forked copy of a fixture built once per shard.
"""
import time, random, json, zlib
import common, enumz3
import docfix as F


def history_prefix(d, seed, n):
  """Concrete, seeded prefix of user actions (applied one bundle each); failures are skipped."""
  if not n:
    return []
  rnd = random.Random(seed)
  pools = F.Pools("full")
  applied = []
  tries = 0
  while len(applied) < n and tries < 6 * n:
    tries += 1
    h = enumz3.Holes({}, rnd)
    try:
      ua = F.gen_action(h, d, "p", pools)
      d.apply(ua)
      applied.append(ua)
    except Exception:
      pass
  return applied


REMOVALS = ("RemoveRecord", "BulkRemoveRecord", "RemoveTable", "RemoveColumn")


def _c10(d, s0, s1, uas):
  only_removals = all(u[0] in ("RemoveRecord", "BulkRemoveRecord", "RemoveTable") for u in uas)
  return F.check_removed_refs(d.e, s0, s1, only_removals)


# invariants evaluated after every successful bundle: pid -> f(doc, snapshot before, snapshot after, actions)
INV = {
  "C09": lambda d, s0, s1, uas: F.check_meta(d.e),
  "C10": _c10,
  "C11": lambda d, s0, s1, uas: F.check_twoway(d.e),
  "C12": lambda d, s0, s1, uas: F.check_summaries(d.e),
}


def run_invariants(d, uas, want):
  """apply one bundle; returns (applied, [(pid, msg)])"""
  s0 = F.snap(d.e)
  try:
    d.apply(*uas)
  except Exception:
    return False, []
  s1 = F.snap(d.e)
  out = []
  for pid in want:
    if pid in INV:
      r = INV[pid](d, s0, s1, uas)
      if r:
        out.append((pid, r))
  return True, out


def make_body(base, mode, first_kind, nacts, size1, size2, want, restore=True):
  # first_kind "K1" fixes the first action's kind; "K1+K2" also fixes the second action's kind
  ks = first_kind.split("+")
  pools1 = F.Pools(size1, kinds=[ks[0]])
  pools_n = F.Pools(size2, kinds=[ks[1]] if len(ks) > 1 else None)

  def body(h):
    d = base.restore() if restore else F.build(base.fixture)
    viol = []
    applied_any = False
    uas = []
    if mode == "one":
      for i in range(nacts):
        uas.append(F.gen_action(h, d, "a%d." % i, pools1 if i == 0 else pools_n))
      if set(want) & set(INV):
        applied, out = run_invariants(d, uas, want)
      else:
        applied, out = F.run_bundle_oracles(d, uas, want)
      applied_any = applied
      for pid, msg in out:
        viol.append({"pid": pid, "msg": msg, "bundles": [uas], "gbf": F.summary_groupby_formula(d.e)})
      return {"nontrivial": applied_any, "violations": viol, "sample": {"mode": mode, "bundle": uas, "applied": applied}}
    # mode == "seq": each action its own bundle; then undo the whole history in reverse
    if set(want) & set(INV):
      for i in range(nacts):
        ua = F.gen_action(h, d, "a%d." % i, pools1 if i == 0 else pools_n)
        uas.append(ua)
        applied, out = run_invariants(d, [ua], want)
        applied_any = applied_any or applied
        for pid, msg in out:
          viol.append({"pid": pid, "msg": "after %s: %s" % (ua[0], msg), "bundles": [[u] for u in uas], "gbf": F.summary_groupby_formula(d.e)})
      return {"nontrivial": applied_any, "violations": viol,
              "sample": {"mode": mode, "bundles": [[u] for u in uas], "applied": applied_any}}
    s_init = F.snap(d.e)
    undos = []
    for i in range(nacts):
      ua = F.gen_action(h, d, "a%d." % i, pools1 if i == 0 else pools_n)
      uas.append(ua)
      s0 = F.snap(d.e)
      try:
        ag = d.apply(ua)
      except Exception as ex:
        if "C04" in want:
          r = F.snap_diff(F.snap(d.e), s0)
          if r:
            viol.append({"pid": "C04", "msg": "bundle raised %s but document changed: %s" % (type(ex).__name__, r),
                         "bundles": [[u] for u in uas]})
        continue
      applied_any = True
      undos.append(F.undo_reprs(ag))
      for pid, fn in (("C02", lambda: F.check_replica(d)), ("C08", lambda: F.check_schema(d.e)),
                      ("C20", lambda: F.check_positions(d.e)), ("C31", lambda: F.check_direct(d, ag, [ua]))):
        if pid in want:
          r = fn()
          if r:
            viol.append({"pid": pid, "msg": r, "bundles": [[u] for u in uas]})
    if "C01" in want and undos:
      try:
        for u in reversed(undos):
          d.e.apply_user_actions([F.UA(["ApplyUndoActions", u])])
        r = F.snap_diff(F.snap(d.e), s_init)
        if r:
          viol.append({"pid": "C01", "msg": "after undoing the history in reverse: " + r,
                       "bundles": [[u] for u in uas]})
      except Exception as ex:
        viol.append({"pid": "C01", "msg": "undo of history raised %s: %s" % (type(ex).__name__, str(ex)[:200]),
                     "bundles": [[u] for u in uas]})
    return {"nontrivial": applied_any, "violations": viol,
            "sample": {"mode": mode, "bundles": [[u] for u in uas], "applied": applied_any}}
  return body


_warm = []


def warm_up():
  """populate astroid / tz caches once per worker process (a cold RenameColumn costs 0.5 s)"""
  if _warm:
    return
  _warm.append(1)
  try:
    d = F.build("types")
    d.apply(["RenameColumn", "T", "Tx", "Zz"])
  except Exception:
    pass


def run_shard(fixture, mode, first_kind, nacts, size1, size2, want, prefix_n, seed, max_s, max_runs):
  warm_up()
  d = F.build(fixture)
  prefix = history_prefix(d, seed * 1000 + zlib.crc32(("%s %s" % (fixture, first_kind)).encode()) % 997, prefix_n)
  body = make_body(F.Saved(d), mode, first_kind, nacts, size1, size2, sorted(want))
  res = enumz3.allsat(body, seed=seed, max_s=max_s, max_runs=max_runs)
  return {"shard": {"fixture": fixture, "mode": mode, "first_kind": first_kind, "nacts": nacts,
                    "pools1": size1, "pools2": size2, "prefix": prefix},
          "runs": res.runs, "exhaustive": res.exhaustive, "solver_s": res.solver_s, "queries": res.queries,
          "nontrivial": res.nontrivial, "outputs": res.outputs, "errors": res.errors,
          "samples": res.samples, "nvars": res.nvars, "wall_s": res.wall_s, "stopped": res.stopped}


def replay(witness, want):
  """Native replay of a witness {fixture, prefix, bundles}: returns list of (pid, msg)."""
  d = F.build(witness["fixture"])
  for ua in witness.get("prefix", []):
    try:
      d.apply(ua)
    except Exception:
      pass
  out = []
  bundles = witness["bundles"]
  if set(want) & set(INV):
    for b in bundles:
      _, res = run_invariants(d, b, want)
      out += res
    return out
  if len(bundles) == 1:
    _, res = F.run_bundle_oracles(d, bundles[0], want)
    return res
  s_init = F.snap(d.e)
  undos = []
  for b in bundles:
    s0 = F.snap(d.e)
    try:
      ag = d.apply(*b)
    except Exception as ex:
      r = F.snap_diff(F.snap(d.e), s0)
      if r:
        out.append(("C04", "bundle raised %s but document changed: %s" % (type(ex).__name__, r)))
      continue
    undos.append(F.undo_reprs(ag))
    for pid, fn in (("C02", lambda: F.check_replica(d)), ("C08", lambda: F.check_schema(d.e)),
                    ("C20", lambda: F.check_positions(d.e)), ("C31", lambda: F.check_direct(d, ag, b))):
      r = fn()
      if r:
        out.append((pid, r))
  try:
    for u in reversed(undos):
      d.e.apply_user_actions([F.UA(["ApplyUndoActions", u])])
    r = F.snap_diff(F.snap(d.e), s_init)
    if r:
      out.append(("C01", "after undoing the history in reverse: " + r))
  except Exception as ex:
    out.append(("C01", "undo of history raised %s: %s" % (type(ex).__name__, str(ex)[:200])))
  return out
