from crosshair.libimpl import builtinslib as b
b._PYTYPE_TO_WRAPPER_TYPE[float] = ((b.RealBasedSymbolicFloat, 1.0),)
