"""E1: CrossHair on unit obligations.

An obligation is a function in a harness module (props/h_*.py) with PEP-316 `pre:` lines and the
postcondition `post: _` (the function returns True when the property holds for its symbolic
arguments).  Every obligation is checked by `crosshair check --report_all` in its own process;
a reachability twin (same body, `post: False`) must be refuted, otherwise the obligation is
vacuous.  Counterexamples are replayed by plain Python (vcheck replay) before they are reported.
"""
import ast, os, re, subprocess, sys, time, json, hashlib, importlib.util
import common

PLUGIN = os.path.join(common.VERIF, "lib", "ch_plugin.py")
PY = os.path.join(common.VERIF, ".venv", "bin", "python")


def _env(tier):
  env = dict(os.environ)
  env["PYTHONPATH"] = os.pathsep.join([common.SHIMS, common.GRIST, os.path.join(common.VERIF, "props"),
                                      os.path.join(common.VERIF, "lib")])
  env["VERIF_TIER"] = tier
  env["PYTHONHASHSEED"] = "0"
  return env


def _def_lines(path):
  with open(path) as f:
    tree = ast.parse(f.read())
  return {n.name: n.lineno for n in tree.body if isinstance(n, ast.FunctionDef)}


def _twin_file(path, func):
  """copy of the harness in which `func`'s postcondition is False (reachability witness)"""
  with open(path) as f:
    src = f.read()
  tree = ast.parse(src)
  lines = src.split("\n")
  for n in tree.body:
    if isinstance(n, ast.FunctionDef) and n.name == func:
      for k in range(n.lineno - 1, n.end_lineno):
        if re.match(r"\s*post:\s*_\s*$", lines[k]):
          lines[k] = lines[k].replace("post: _", "post: False")
          break
      else:
        raise AssertionError("no 'post: _' line in %s" % func)
  d = os.path.join(common.WORK, "twins")
  os.makedirs(d, exist_ok=True)
  out = os.path.join(d, "%s__%s.py" % (os.path.basename(path)[:-3], func))
  with open(out, "w") as f:
    f.write("\n".join(lines))
  return out


def _run_one(path, func, tier, cond_timeout, path_timeout, twin):
  """returns dict(verdict=confirmed|counterexample|not_confirmed|no_precondition|error, ...)"""
  t0 = time.time()
  target_file = _twin_file(path, func) if twin else path
  line = _def_lines(target_file)[func]
  cmd = [PY, "-m", "crosshair", "check", "--extra_plugin", PLUGIN, "--report_all",
         "--per_condition_timeout", str(cond_timeout), "--per_path_timeout", str(path_timeout),
         "%s:%d" % (target_file, line)]
  try:
    p = subprocess.run(cmd, capture_output=True, text=True, env=_env(tier),
                       timeout=cond_timeout * 3 + 120)
    out = p.stdout + p.stderr
  except subprocess.TimeoutExpired as e:
    return {"func": func, "twin": twin, "verdict": "error", "detail": "crosshair process timed out",
            "wall_s": time.time() - t0}
  res = {"func": func, "twin": twin, "wall_s": round(time.time() - t0, 2), "raw": out[-1500:]}
  m = re.search(r"error: (.*?when calling (.*))$", out, re.M | re.S)
  if "Confirmed over all paths" in out:
    res["verdict"] = "confirmed"
  elif re.search(r": error: ", out):
    res["verdict"] = "counterexample"
    mm = re.search(r"when calling (\w+\(.*?\))(?: \(which (?:returns|raises).*)?$", out, re.M | re.S)
    res["call"] = mm.group(1).strip() if mm else None
    res["message"] = re.search(r": error: (.*)", out).group(1)[:500]
  elif "Unable to meet precondition" in out:
    res["verdict"] = "no_precondition"
  elif "Not confirmed" in out:
    res["verdict"] = "not_confirmed"
  else:
    res["verdict"] = "error"
    res["detail"] = out[-1500:]
  return res


def load_harness(path):
  name = os.path.basename(path)[:-3]
  spec = importlib.util.spec_from_file_location(name, path)
  mod = importlib.util.module_from_spec(spec)
  sys.modules[name] = mod
  spec.loader.exec_module(mod)
  return mod


def native_call(path, call):
  """Replay: evaluate the counterexample call with plain Python.  Returns (violated, detail)."""
  common.setup_path()
  sys.path.insert(0, os.path.join(common.VERIF, "props"))
  os.environ["VERIF_NATIVE"] = "1"      # harnesses with stubs switch to the real library for replay
  mod = load_harness(path)
  ns = dict(vars(mod))
  ns.setdefault("nan", float("nan"))
  ns.setdefault("inf", float("inf"))
  try:
    r = eval(call, ns)
  except Exception as e:
    allowed = getattr(mod, "ALLOWED_EXC", ())
    if isinstance(e, allowed):
      return False, "raised allowed %r" % (e,)
    return True, "raised %s: %s" % (type(e).__name__, str(e)[:300])
  return (not r), "returned %r" % (r,)


def run(pid, harness_path, obligations, tier, ev, jobs=None):
  """obligations: list of dicts {func, cond_timeout, path_timeout, desc}.  Fills ev.cov and
  returns (violations, harness_errors)."""
  tasks = []
  for ob in obligations:
    tasks.append((harness_path, ob["func"], tier, ob["cond_timeout"], ob.get("path_timeout", 30), False))
    tasks.append((harness_path, ob["func"], tier, min(60, ob["cond_timeout"]), ob.get("path_timeout", 30), True))
  results = common.pmap(_run_one, tasks, jobs=jobs)
  by = {}
  harness = []
  for t, (st, r) in zip(tasks, results):
    if st != "ok":
      harness.append("crosshair task %s failed: %s" % (t[1], str(r)[:500]))
      continue
    by[(r["func"], r["twin"])] = r
  violations = []
  rows = []
  discharged = inconclusive = 0
  for ob in obligations:
    f = ob["func"]
    main = by.get((f, False))
    twin = by.get((f, True))
    row = {"obligation": f, "desc": ob.get("desc", ""), "verdict": main and main["verdict"],
           "wall_s": main and main["wall_s"], "twin": twin and twin["verdict"]}
    rows.append(row)
    if main is None or twin is None:
      continue
    if twin["verdict"] != "counterexample":
      # the assertion was never reached: a pass would be vacuous
      if main["verdict"] == "confirmed":
        harness.append("obligation %s: reachability twin not refuted (%s) - vacuous" % (f, twin["verdict"]))
      row["vacuous_or_unreached"] = True
    if main["verdict"] == "confirmed" and twin["verdict"] == "counterexample":
      discharged += 1
    elif main["verdict"] == "counterexample":
      call = main.get("call")
      if not call:
        harness.append("obligation %s: counterexample without a parsable call: %s" % (f, main.get("message")))
        continue
      w = {"engine": "E1", "harness": os.path.relpath(harness_path, common.VERIF), "call": call, "func": f}
      p = common.save_replay(pid, w)
      cmd = [os.path.join(common.VERIF, "vcheck"), "replay", pid, p]
      rp = subprocess.run(cmd, capture_output=True, text=True, timeout=300)
      if rp.returncode == 1:
        sig = {"pid": pid, "obligation": f, "call": call}
        mt = re.search(r"TAG=(\S+)", rp.stdout)
        if mt:
          sig["tag"] = mt.group(1)
        violations.append({"sig": sig, "msg": "%s: %s :: %s" % (f, main.get("message"), rp.stdout[-300:]), "witness": w})
      else:
        harness.append("obligation %s: counterexample %s did not reproduce natively: %s" % (f, call, (rp.stdout + rp.stderr)[-300:]))
        os.remove(p)
    elif main["verdict"] == "error":
      harness.append("obligation %s: crosshair error: %s" % (f, main.get("detail", "")[-600:]))
    else:
      inconclusive += 1
  ev.cov.update({
    "obligations": len(obligations), "discharged": discharged, "inconclusive_obligations": inconclusive,
    "obligation_results": rows,
    "checker_cmd": "crosshair check --extra_plugin lib/ch_plugin.py --report_all --per_condition_timeout T --per_path_timeout P <harness>:<line>",
    "trusted_base": ["crosshair-tool 0.0.110", "z3-solver 5.1.0", "lib/ch_plugin.py (real-arithmetic float model)",
                     "harness " + os.path.relpath(harness_path, common.VERIF)],
  })
  return violations, harness


def replay_cmd(pid, path):
  with open(path) as f:
    w = json.load(f)
  hp = os.path.join(common.VERIF, w["harness"])
  bad, detail = native_call(hp, w["call"])
  if bad:
    tag = ""
    mod = sys.modules.get(os.path.basename(hp)[:-3])
    if mod is not None and hasattr(mod, "classify"):
      try:
        tree = ast.parse(w["call"], mode="eval").body
        ns = dict(vars(mod)); ns.setdefault("nan", float("nan")); ns.setdefault("inf", float("inf"))
        args = [eval(compile(ast.Expression(a), "<arg>", "eval"), ns) for a in tree.args]
        kwargs = {k.arg: eval(compile(ast.Expression(k.value), "<arg>", "eval"), ns) for k in tree.keywords}
        tag = " TAG=%s" % mod.classify(tree.func.id, args, kwargs)
      except Exception as e:
        tag = " TAG=unclassified"
    print("REPRODUCED property=%s %s -> %s%s" % (pid, w["call"], detail, tag))
    return 1
  print("not reproduced property=%s %s -> %s" % (pid, w["call"], detail))
  return 0
