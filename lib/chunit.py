"""E1: CrossHair on unit obligations.

An obligation is a function in a harness module (props/h_*.py) with PEP-316 `pre:` lines and the
postcondition `post: _` (the function returns True when the property holds for its symbolic
arguments).  Every obligation is checked by `crosshair check --report_all` in its own process;
a reachability twin (same body, `post: False`) must be refuted, otherwise the obligation is
vacuous.  Counterexamples are replayed by plain Python (vcheck replay) before they are reported.
"""
import ast, os, re, subprocess, sys, time, json, hashlib, importlib.util
import common

PLUGIN = os.path.join(common.VERIF, "lib", "ch_plugin.py")
PY = os.path.join(common.VERIF, ".venv", "bin", "python")


def _env(tier):
  env = dict(os.environ)
  env["PYTHONPATH"] = os.pathsep.join([common.SHIMS, common.GRIST, os.path.join(common.VERIF, "props"),
                                      os.path.join(common.VERIF, "lib")])
  env["VERIF_TIER"] = tier
  env["PYTHONHASHSEED"] = "0"
  return env


def _def_lines(path):
  with open(path) as f:
    tree = ast.parse(f.read())
  return {n.name: n.lineno for n in tree.body if isinstance(n, ast.FunctionDef)}


def _twin_file(path, func):
  """copy of the harness in which `func`'s postcondition is False (reachability witness)"""
  with open(path) as f:
    src = f.read()
  tree = ast.parse(src)
  lines = src.split("\n")
  for n in tree.body:
    if isinstance(n, ast.FunctionDef) and n.name == func:
      for k in range(n.lineno - 1, n.end_lineno):
        if re.match(r"\s*post:\s*_\s*$", lines[k]):
          lines[k] = lines[k].replace("post: _", "post: False")
          break
      else:
        raise AssertionError("no 'post: _' line in %s" % func)
  d = os.path.join(common.WORK, "twins")
  os.makedirs(d, exist_ok=True)
  out = os.path.join(d, "%s__%s.py" % (os.path.basename(path)[:-3], func))
  with open(out, "w") as f:
    f.write("\n".join(lines))
  return out


def _run_one(path, func, tier, cond_timeout, path_timeout, twin):
  """returns dict(verdict=confirmed|counterexample|not_confirmed|no_precondition|error, ...)"""
  t0 = time.time()
  target_file = _twin_file(path, func) if twin else path
  line = _def_lines(target_file)[func]
  cmd = [PY, "-m", "crosshair", "check", "--extra_plugin", PLUGIN, "--report_all",
         "--per_condition_timeout", str(cond_timeout), "--per_path_timeout", str(path_timeout),
         "%s:%d" % (target_file, line)]
  try:
    p = subprocess.run(cmd, capture_output=True, text=True, env=_env(tier),
                       timeout=cond_timeout * 3 + 120)
    out = p.stdout + p.stderr
  except subprocess.TimeoutExpired as e:
    return {"func": func, "twin": twin, "verdict": "error", "detail": "crosshair process timed out",
            "wall_s": time.time() - t0}
  res = {"func": func, "twin": twin, "wall_s": round(time.time() - t0, 2), "raw": out[-1500:]}
  m = re.search(r"error: (.*?when calling (.*))$", out, re.M | re.S)
  if "Confirmed over all paths" in out:
    res["verdict"] = "confirmed"
  elif re.search(r": error: ", out):
    res["verdict"] = "counterexample"
    mm = re.search(r"when calling (\w+\(.*?\))(?: with crosshair\.patch_to_return\(.*?\))?(?: \(which (?:returns|raises).*)?$", out, re.M | re.S)
    res["call"] = mm.group(1).strip() if mm else None
    res["message"] = re.search(r": error: (.*)", out).group(1)[:500]
  elif "Unable to meet precondition" in out:
    res["verdict"] = "no_precondition"
  elif "Not confirmed" in out:
    res["verdict"] = "not_confirmed"
  else:
    res["verdict"] = "error"
    res["detail"] = out[-1500:]
  return res


def load_harness(path):
  name = os.path.basename(path)[:-3]
  spec = importlib.util.spec_from_file_location(name, path)
  mod = importlib.util.module_from_spec(spec)
  sys.modules[name] = mod
  spec.loader.exec_module(mod)
  return mod


def native_call(path, call):
  """Replay: evaluate the counterexample call with plain Python.  Returns (violated, detail)."""
  common.setup_path()
  sys.path.insert(0, os.path.join(common.VERIF, "props"))
  os.environ["VERIF_NATIVE"] = "1"      # harnesses with stubs switch to the real library for replay
  mod = load_harness(path)
  ns = dict(vars(mod))
  ns.setdefault("nan", float("nan"))
  ns.setdefault("inf", float("inf"))
  try:
    code = compile(call, "<call>", "eval")
  except SyntaxError as e:
    return False, "counterexample text could not be parsed: %s" % (e,)
  try:
    r = eval(code, ns)
  except Exception as e:
    allowed = getattr(mod, "ALLOWED_EXC", ())
    if isinstance(e, allowed):
      return False, "raised allowed %r" % (e,)
    return True, "raised %s: %s" % (type(e).__name__, str(e)[:300])
  return (not r), "returned %r" % (r,)


def run(pid, harness_path, obligations, tier, ev, jobs=None):
  """obligations: list of dicts {func, cond_timeout, path_timeout, desc}.  Fills ev.cov and
  returns (violations, harness_errors)."""
  tasks = []
  for ob in obligations:
    tasks.append((harness_path, ob["func"], tier, ob["cond_timeout"], ob.get("path_timeout", 30), False))
    tasks.append((harness_path, ob["func"], tier, min(60, ob["cond_timeout"]), ob.get("path_timeout", 30), True))
  results = common.pmap(_run_one, tasks, jobs=jobs)
  by = {}
  harness = []
  for t, (st, r) in zip(tasks, results):
    if st != "ok":
      harness.append("crosshair task %s failed: %s" % (t[1], str(r)[:500]))
      continue
    by[(r["func"], r["twin"])] = r
  violations = []
  rows = []
  discharged = inconclusive = 0
  for ob in obligations:
    f = ob["func"]
    main = by.get((f, False))
    twin = by.get((f, True))
    row = {"obligation": f, "desc": ob.get("desc", ""), "verdict": main and main["verdict"],
           "wall_s": main and main["wall_s"], "twin": twin and twin["verdict"]}
    rows.append(row)
    if main is None or twin is None:
      continue
    if twin["verdict"] != "counterexample":
      # the assertion was never reached: a pass would be vacuous
      if main["verdict"] == "confirmed":
        harness.append("obligation %s: reachability twin not refuted (%s) - vacuous" % (f, twin["verdict"]))
      row["vacuous_or_unreached"] = True
    if main["verdict"] == "confirmed" and twin["verdict"] == "counterexample":
      discharged += 1
    elif main["verdict"] == "counterexample":
      call = main.get("call")
      if not call:
        harness.append("obligation %s: counterexample without a parsable call: %s" % (f, main.get("message")))
        continue
      w = {"engine": "E1", "harness": os.path.relpath(harness_path, common.VERIF), "call": call, "func": f}
      p = common.save_replay(pid, w)
      cmd = [os.path.join(common.VERIF, "vcheck"), "replay", pid, p]
      rp = subprocess.run(cmd, capture_output=True, text=True, timeout=300)
      if rp.returncode == 1:
        sig = {"pid": pid, "obligation": f, "call": call}
        mt = re.search(r"TAG=(\S+)", rp.stdout)
        if mt:
          sig["tag"] = mt.group(1)
        violations.append({"sig": sig, "msg": "%s: %s :: %s" % (f, main.get("message"), rp.stdout[-300:]), "witness": w})
      else:
        harness.append("obligation %s: counterexample %s did not reproduce natively: %s" % (f, call, (rp.stdout + rp.stderr)[-300:]))
        os.remove(p)
    elif main["verdict"] == "error":
      harness.append("obligation %s: crosshair error: %s" % (f, main.get("detail", "")[-600:]))
    else:
      inconclusive += 1
  ev.cov.update({
    "obligations": len(obligations), "discharged": discharged, "inconclusive_obligations": inconclusive,
    "obligation_results": rows,
    "checker_cmd": "crosshair check --extra_plugin lib/ch_plugin.py --report_all --per_condition_timeout T --per_path_timeout P <harness>:<line>",
    "trusted_base": ["crosshair-tool 0.0.110", "z3-solver 5.1.0", "lib/ch_plugin.py (real-arithmetic float model)",
                     "harness " + os.path.relpath(harness_path, common.VERIF)],
  })
  return violations, harness


def replay_cmd(pid, path):
  with open(path) as f:
    w = json.load(f)
  hp = os.path.join(common.VERIF, w["harness"])
  bad, detail = native_call(hp, w["call"])
  if bad:
    tag = ""
    mod = sys.modules.get(os.path.basename(hp)[:-3])
    if mod is not None and hasattr(mod, "classify"):
      try:
        tree = ast.parse(w["call"], mode="eval").body
        ns = dict(vars(mod)); ns.setdefault("nan", float("nan")); ns.setdefault("inf", float("inf"))
        args = [eval(compile(ast.Expression(a), "<arg>", "eval"), ns) for a in tree.args]
        kwargs = {k.arg: eval(compile(ast.Expression(k.value), "<arg>", "eval"), ns) for k in tree.keywords}
        tag = " TAG=%s" % mod.classify(tree.func.id, args, kwargs)
      except Exception as e:
        tag = " TAG=unclassified"
    print("REPRODUCED property=%s %s -> %s%s" % (pid, w["call"], detail, tag))
    return 1
  print("not reproduced property=%s %s -> %s" % (pid, w["call"], detail))
  return 0


# ---------------------------------------------------------------------------------------------
# enumerated obligations: the same harness functions over finite argument domains, enumerated by the z3
# AllSAT loop (used where every argument is realised anyway - text handed to C parsers, indices - and
# CrossHair's realise-and-retry costs 100x more than a native call)

def _enum_shard(harness_path, func, domains, fixed, max_s):
  import enumz3
  common.setup_path()
  sys.path.insert(0, os.path.join(common.VERIF, "props"))
  os.environ["VERIF_NATIVE"] = "1"
  mod = load_harness(harness_path)
  fn = getattr(mod, func)
  names = list(domains)
  prune = getattr(mod, "PRUNE", {}).get(func)

  def body(h):
    kw = dict(fixed)
    for n in names:
      if n not in kw:
        kw[n] = h.choice(n, domains[n])
      # optional pruning: PRUNE[func](partial kwargs) -> False once the arguments read so far already fall outside the
      # obligation's precondition; the blocked cube then covers every completion of them
      if prune is not None and not prune(kw):
        return {"nontrivial": False, "violations": []}
    try:
      ok = fn(**kw)
      detail = "returned %r" % (ok,)
    except Exception as e:
      allowed = getattr(mod, "ALLOWED_EXC", ())
      ok = isinstance(e, allowed)
      detail = "raised %s: %s" % (type(e).__name__, str(e)[:200])
    call = "%s(%s)" % (func, ", ".join("%s=%r" % (k, kw[k]) for k in kw))
    viol = []
    if not ok:
      tag = None
      if hasattr(mod, "classify"):
        try:
          tag = mod.classify(func, [], kw)
        except Exception:
          tag = "unclassified"
      # one witness per class (tag) and at most a handful of untagged ones per shard: each is replayed in a subprocess
      key = tag or "untagged%d" % min(len([k for k in seen if k.startswith("untagged")]), 4)
      if key not in seen:
        seen.add(key)
        viol.append({"call": call, "detail": detail, "tag": tag})
      counts[tag or "untagged"] = counts.get(tag or "untagged", 0) + 1
    return {"nontrivial": True, "violations": viol, "sample": call}
  seen, counts = set(), {}
  res = enumz3.allsat(body, max_s=max_s)
  return {"func": func, "runs": res.runs, "nontrivial": res.nontrivial, "exhaustive": res.exhaustive, "outputs": res.outputs, "errors": res.errors,
          "samples": res.samples[:2], "solver_s": res.solver_s, "queries": res.queries, "violating_runs": counts}


def run_enum(pid, harness_path, specs, ev):
  """specs: [{func, domains: {arg: [values]}, shard_by: arg|None, max_s, desc}] -> (violations, harness)"""
  tasks = []
  for sp in specs:
    if sp.get("shard_by"):
      for v in sp["domains"][sp["shard_by"]]:
        tasks.append((harness_path, sp["func"], sp["domains"], {sp["shard_by"]: v}, sp.get("max_s")))
    else:
      tasks.append((harness_path, sp["func"], sp["domains"], {}, sp.get("max_s")))
  results = common.pmap(_enum_shard, tasks)
  violations, harness, rows = [], [], {}
  replayed = set()
  for t, (st, r) in zip(tasks, results):
    if st != "ok":
      harness.append("enumerated obligation %s failed: %s" % (t[1], str(r)[:600]))
      continue
    row = rows.setdefault(r["func"], {"obligation": r["func"], "mode": "enumerated (z3 AllSAT, native calls)", "runs": 0, "exhaustive": True,
                                      "samples": r["samples"]})
    row["runs"] += r["runs"]
    row["nontrivial_runs"] = row.get("nontrivial_runs", 0) + r.get("nontrivial", 0)
    row["exhaustive"] = row["exhaustive"] and r["exhaustive"]
    for k_, n_ in r.get("violating_runs", {}).items():
      row.setdefault("violating_runs", {})[k_] = row.get("violating_runs", {}).get(k_, 0) + n_
    for e in r["errors"]:
      harness.append("enumerated obligation %s: %s" % (r["func"], str(e)[-400:]))
    for o in r["outputs"]:
      for v in o["violations"]:
        if (r["func"], v.get("tag")) in replayed and v.get("tag"):
          continue
        replayed.add((r["func"], v.get("tag")))
        w = {"engine": "E1", "harness": os.path.relpath(harness_path, common.VERIF), "call": v["call"], "func": r["func"]}
        p = common.save_replay(pid, w)
        rp = subprocess.run([os.path.join(common.VERIF, "vcheck"), "replay", pid, p], capture_output=True, text=True, timeout=300)
        if rp.returncode == 1:
          sig = {"pid": pid, "obligation": r["func"], "call": v["call"]}
          mt = re.search(r"TAG=(\S+)", rp.stdout)
          if mt:
            sig["tag"] = mt.group(1)
          violations.append({"sig": sig, "msg": "%s -> %s" % (v["call"], v["detail"]), "witness": w})
        else:
          harness.append("enumerated counterexample %s did not reproduce: %s" % (v["call"], (rp.stdout + rp.stderr)[-200:]))
          os.remove(p)
  ev.cov["enumerated_obligations"] = list(rows.values())
  return violations, harness
