"""Shared plumbing for /verif checks: paths, evidence files, known findings, replay files, pools."""
import os, sys, json, time, hashlib, traceback, re

VERIF = os.path.dirname(os.path.dirname(os.path.abspath(__file__)))
REPO = os.environ.get('VERIF_REPO', '/repo')
GRIST = os.path.join(REPO, 'sandbox', 'grist')
SHIMS = os.path.join(VERIF, 'shims')
EVID = os.path.join(VERIF, 'evidence')
REPLAYS = os.path.join(VERIF, 'replays')
NCPU = int(os.environ.get('VERIF_JOBS', '0')) or (os.cpu_count() or 4)

EXIT_OK, EXIT_VIOLATION, EXIT_HARNESS = 0, 1, 3

SHIM_ASSUMPTION = ("friendly_traceback is absent from /venv; a 12-line stand-in (shims/friendly_traceback) "
                   "maps source_cache.cache.add to linecache so that the engine can start; error cells "
                   "therefore carry no 'friendly' message suffix")


def setup_path():
  for p in (os.path.join(VERIF, 'lib'), GRIST, SHIMS):
    if p in sys.path:
      sys.path.remove(p)
    sys.path.insert(0, p)
  import logging
  logging.disable(logging.CRITICAL)


def file_sha(path):
  try:
    with open(path, 'rb') as f:
      return hashlib.sha1(f.read()).hexdigest()[:12]
  except OSError:
    return None


def code_ref(*relfiles):
  """[{file, sha1}] of the current working-tree files the check executed."""
  out = []
  for r in relfiles:
    p = os.path.join(REPO, r)
    out.append({"file": r, "sha1": file_sha(p)})
  return out


class Evidence(object):
  def __init__(self, pid, level, tier=None, seed=None):
    self.pid = pid
    self.level = level
    self.tier = tier or os.environ.get('VERIF_TIER', 'quick')
    self.seed = int(seed if seed is not None else os.environ.get('VERIF_SEED', '0') or 0)
    self.t0 = time.time()
    self.cov = {"evaluations": 0, "distinct_nontrivial": 0, "rule": "", "samples": []}
    self.assumptions = []
    self.violations = 0

  def add_samples(self, samples, cap=8):
    for s in samples:
      if len(self.cov["samples"]) < cap:
        self.cov["samples"].append(s)

  def write(self):
    os.makedirs(EVID, exist_ok=True)
    doc = {
      "property_id": self.pid, "tier": self.tier, "seed": self.seed, "level": self.level,
      "coverage": self.cov, "assumptions": self.assumptions,
      "wall_s": round(time.time() - self.t0, 2), "violations": self.violations,
    }
    path = os.path.join(EVID, self.pid + ".json")
    tmp = path + ".tmp%d" % os.getpid()
    with open(tmp, "w") as f:
      json.dump(doc, f, indent=1, sort_keys=True, default=repr)
    os.replace(tmp, path)
    return path


# ---------------------------------------------------------------------------------------------
# thorough-tier sizing: every thorough command is meant to end within about VERIF_THOROUGH_BUDGET_S of wall time on this
# machine (default 7 min; set it higher for a deeper run).  A shard that has not exhausted its cube space when its share
# of the budget is used up stops and is reported as not exhausted in the evidence - never as a success of the whole space.

def fit_cap(max_s, nshards, tier):
  if tier != "thorough":
    return max_s
  budget = float(os.environ.get("VERIF_THOROUGH_BUDGET_S", "420"))
  share = max(5.0, 1.2 * budget * NCPU / max(1, nshards))
  return min(max_s, share) if max_s is not None else 2 * share


# ---------------------------------------------------------------------------------------------
# known findings

def load_known():
  p = os.path.join(VERIF, 'known_findings.json')
  if not os.path.exists(p):
    return {"findings": [], "fixed": []}
  with open(p) as f:
    return json.load(f)


def _match_one(pat, val):
  if isinstance(pat, dict) and "re" in pat:
    return isinstance(val, str) and re.search(pat["re"], val) is not None
  if isinstance(pat, dict) and "in" in pat:
    return val in pat["in"]
  return pat == val


def match_known(pid, sig, known=None):
  """sig: dict describing the failing input (normalised by the oracle).  A finding matches when
  every key of its 'match' dict matches the signature."""
  known = known or load_known()
  for f in known.get("findings", []):
    if f.get("property") != pid:
      continue
    m = f.get("match", {})
    if all(k in sig and _match_one(v, sig[k]) for k, v in m.items()):
      return f
  return None


def save_replay(pid, witness):
  d = os.path.join(REPLAYS, pid)
  os.makedirs(d, exist_ok=True)
  blob = json.dumps(witness, sort_keys=True, default=repr)
  name = hashlib.sha1(blob.encode()).hexdigest()[:12] + ".json"
  p = os.path.join(d, name)
  with open(p, "w") as f:
    f.write(blob)
  return p


def report(pid, ev, violations, harness_errors=()):
  """violations: list of dicts {sig: {...}, msg: str, witness: {...}} already replayed natively.
  Prints KNOWN-FINDING / VIOLATION lines, writes evidence, returns exit code."""
  known = load_known()
  seen_known = {}
  new = []
  for v in violations:
    f = match_known(pid, v.get("sig", {}), known)
    if f is not None:
      seen_known.setdefault(f["id"], (f, v))
    else:
      new.append(v)
  for fid, (f, v) in sorted(seen_known.items()):
    print("KNOWN-FINDING: property=%s %s [%s]" % (pid, f.get("what", ""), fid))
  printed = set()
  for v in new:
    key = json.dumps(v.get("sig", {}), sort_keys=True, default=repr)
    if key in printed:
      continue
    printed.add(key)
    if len(printed) > 10:
      continue
    p = save_replay(pid, v["witness"])
    print("VIOLATION property=%s replay=%s" % (pid, p))
    print("  what: %s" % (str(v.get("msg"))[:600],))
  ev.violations = len(printed)
  ev.cov["known_findings_seen"] = sorted(seen_known)
  ev.cov["harness_errors"] = [str(h)[:400] for h in harness_errors][:10]
  ev.write()
  if printed:
    return EXIT_VIOLATION
  if harness_errors:
    for h in list(harness_errors)[:5]:
      print("HARNESS-ERROR property=%s %s" % (pid, str(h)[:600]))
    return EXIT_HARNESS
  return EXIT_OK


# ---------------------------------------------------------------------------------------------
# process pool over shards.  multiprocessing.Pool cannot survive a worker that has to be killed
# (an engine run that never returns cannot be interrupted from inside: Engine._recompute_one_cell
# has a bare `except:`), so this is a small pool of forked workers with a watchdog per run.

WORK = os.path.join(VERIF, 'work')
_cur_fd = None
_fh_file = None
RUN_TIMEOUT_S = int(os.environ.get('VERIF_RUN_TIMEOUT', '40'))


def _worker_files(wid):
  global _cur_fd, _fh_file
  os.makedirs(WORK, exist_ok=True)
  _cur_fd = os.open(os.path.join(WORK, 'cur.%s' % wid), os.O_RDWR | os.O_CREAT | os.O_TRUNC)
  _fh_file = open(os.path.join(WORK, 'fh.%s' % wid), 'w')
  import faulthandler, signal
  faulthandler.register(signal.SIGUSR1, file=_fh_file, all_threads=True)


def cur_set(obj):
  """record what this worker is doing (read by the parent if the worker has to be killed)"""
  if _cur_fd is None:
    return
  b = json.dumps(obj, default=repr).encode()[:60000]
  os.ftruncate(_cur_fd, 0)
  os.pwrite(_cur_fd, b, 0)


_cur_shard = [None]


def watchdog_start():
  import faulthandler
  if _fh_file is not None:
    faulthandler.dump_traceback_later(RUN_TIMEOUT_S, exit=True, file=_fh_file)


def watchdog_stop():
  import faulthandler
  if _fh_file is not None:
    faulthandler.cancel_dump_traceback_later()


def _worker(wid, fn, arglist, jobdir):
  """claim shards through O_EXCL files, write each result as a pickle file (no pipes, no shared
  memory: both deadlocked or got corrupted under this workload)"""
  import pickle
  _worker_files(wid)
  for i in range(len(arglist)):
    try:
      fd = os.open(os.path.join(jobdir, "claim.%d" % i), os.O_CREAT | os.O_EXCL | os.O_WRONLY)
    except FileExistsError:
      continue
    os.write(fd, wid.encode())
    os.close(fd)
    _cur_shard[0] = i
    cur_set({"shard": i})
    try:
      r = ("ok", fn(*arglist[i]))
    except BaseException:
      r = ("err", traceback.format_exc()[-2000:])
    tmp = os.path.join(jobdir, "tmp.%d" % i)
    try:
      with open(tmp, "wb") as f:
        pickle.dump(r, f, protocol=4)
    except Exception:
      with open(tmp, "wb") as f:
        pickle.dump(("err", "result could not be pickled: " + traceback.format_exc()[-1500:]), f, protocol=4)
    os.rename(tmp, os.path.join(jobdir, "res.%d" % i))
  os._exit(0)


def pmap(fn, arglist, jobs=None):
  """Run fn(*args) for each args tuple in forked workers; returns a list, one per args, of
  ('ok', res) | ('err', traceback) | ('died', {cur, where}) in the order of arglist.  A worker
  that the per-run watchdog kills costs exactly the shard it was running."""
  import multiprocessing as mp, pickle, shutil, tempfile
  jobs = jobs or NCPU
  arglist = list(arglist)
  if not arglist:
    return []
  ctx = mp.get_context('fork')
  os.makedirs(WORK, exist_ok=True)
  jobdir = tempfile.mkdtemp(prefix="job.%d." % os.getpid(), dir=WORK)
  results = [None] * len(arglist)
  workers = {}
  wcount = [0]

  def spawn():
    wid = "%d.%d" % (os.getpid(), wcount[0])
    wcount[0] += 1
    p = ctx.Process(target=_worker, args=(wid, fn, arglist, jobdir))
    p.start()
    workers[wid] = p

  for _ in range(min(jobs, len(arglist))):
    spawn()
  while any(r is None for r in results):
    time.sleep(0.2)
    for i in range(len(arglist)):
      if results[i] is None:
        rp = os.path.join(jobdir, "res.%d" % i)
        if os.path.exists(rp):
          try:
            with open(rp, "rb") as f:
              results[i] = pickle.load(f)
          except Exception:
            results[i] = ("err", "unreadable result: " + traceback.format_exc()[-800:])
    for wid, p in list(workers.items()):
      if p.exitcode is None:
        continue
      del workers[wid]
      # did it die holding a claim?
      for i in range(len(arglist)):
        if results[i] is None and not os.path.exists(os.path.join(jobdir, "res.%d" % i)):
          cp = os.path.join(jobdir, "claim.%d" % i)
          try:
            with open(cp) as f:
              owner = f.read()
          except OSError:
            continue
          if owner == wid:
            cur, where = {}, ""
            try:
              with open(os.path.join(WORK, 'cur.%s' % wid)) as f:
                cur = json.loads(f.read() or "{}")
            except Exception:
              pass
            try:
              with open(os.path.join(WORK, 'fh.%s' % wid)) as f:
                where = f.read()[:3000]
            except Exception:
              pass
            results[i] = ("died", {"cur": cur, "where": where, "exitcode": p.exitcode})
      unclaimed = any(not os.path.exists(os.path.join(jobdir, "claim.%d" % i)) for i in range(len(arglist)))
      if unclaimed and p.exitcode != 0 and os.path.isdir(jobdir) and wcount[0] < jobs + len(arglist):
        spawn()
    if not workers and any(r is None for r in results):
      # everybody is gone: pick up late results, then give up on the rest
      for i in range(len(arglist)):
        rp = os.path.join(jobdir, "res.%d" % i)
        if results[i] is None and os.path.exists(rp):
          with open(rp, "rb") as f:
            results[i] = pickle.load(f)
      for k, r in enumerate(results):
        if r is None:
          results[k] = ("err", "no worker produced a result for this shard")
  for p in workers.values():
    p.join(timeout=10)
    if p.exitcode is None:
      p.terminate()
  shutil.rmtree(jobdir, ignore_errors=True)
  try:
    for f in os.listdir(WORK):
      if f.startswith('cur.%d.' % os.getpid()) or f.startswith('fh.%d.' % os.getpid()):
        os.remove(os.path.join(WORK, f))
  except OSError:
    pass
  return results
