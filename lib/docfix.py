"""Fixtures, snapshots and oracles over the real Grist data engine (used by the E2 checks).

Everything here drives /repo/sandbox/grist through its public entry points (Engine.apply_user_actions,
fetch_table, load_meta_tables/load_table) -- no model of Grist is written here.
"""
import itertools, marshal, random, json
import common
common.setup_path()

import engine as engine_mod, actions, useractions, table_data_set, schema, objtypes, column as colmod
import main as main_mod

UA = useractions.from_repr


# ---------------------------------------------------------------------------------------------
# encoded comparison (as Node sees cells; numbers by value, bools only equal bools, NaN == NaN)

def enc(v):
  return objtypes.encode_object(v)


def eq(a, b):
  if isinstance(a, bool) or isinstance(b, bool):
    return type(a) == type(b) and a == b
  if isinstance(a, float) and isinstance(b, float):
    return a == b or (a != a and b != b)
  if isinstance(a, (list, tuple)) and isinstance(b, (list, tuple)):
    return len(a) == len(b) and all(eq(x, y) for x, y in zip(a, b))
  if isinstance(a, dict) and isinstance(b, dict):
    return a.keys() == b.keys() and all(eq(a[k], b[k]) for k in a)
  return a == b


def snap(e, user_only=False):
  out = {}
  for t in sorted(e.tables):
    if user_only and t.startswith("_grist_"):
      continue
    td = e.fetch_table(t)
    out[t] = (list(td.row_ids), {c: [enc(v) for v in vs] for c, vs in td.columns.items()})
  return out


def snap_diff(a, b):
  """None when equal, else a short description of the first difference."""
  if a.keys() != b.keys():
    return "tables %s vs %s" % (sorted(a), sorted(b))
  for t in a:
    if a[t][0] != b[t][0]:
      return "%s row ids %s vs %s" % (t, a[t][0], b[t][0])
    if a[t][1].keys() != b[t][1].keys():
      return "%s columns %s vs %s" % (t, sorted(a[t][1]), sorted(b[t][1]))
    for c in a[t][1]:
      if not eq(a[t][1][c], b[t][1][c]):
        return "%s.%s %s vs %s" % (t, c, a[t][1][c], b[t][1][c])
  return None


# ---------------------------------------------------------------------------------------------

class Doc(object):
  """The engine plus the repository's own independent doc-action interpreter fed with every
  stored action since InitNewDoc (the C02 replica)."""

  def __init__(self, replica=True):
    self.e = engine_mod.Engine()
    self.e.load_empty()
    self.rep = table_data_set.TableDataSet() if replica else None
    self.log = []     # user-action reprs applied successfully, bundle by bundle
    self.apply(["InitNewDoc"])

  def apply(self, *uas):
    import copy
    # (the engine mutates nested arguments, e.g. AddTable's column list: always hand it a private copy)
    ag = self.e.apply_user_actions([UA(copy.deepcopy(list(u))) for u in uas])
    if self.rep is not None:
      for a in ag.stored:
        self.rep.apply_doc_action(actions.action_from_repr(actions.get_action_repr(a)))
    self.log.append([list(u) for u in uas])
    return ag

  # ---- schema helpers used to build actions ------------------------------------------------
  def user_tables(self, summaries=True):
    out = []
    tt = self.e.fetch_table("_grist_Tables")
    summ = {t for t, s_ in zip(tt.columns["tableId"], tt.columns["summarySourceTable"]) if s_}
    for t in self.e.schema:
      if t.startswith("_grist_"):
        continue
      if not summaries and t in summ:
        continue
      out.append(t)
    return out

  def summary_tables(self):
    tt = self.e.fetch_table("_grist_Tables")
    return {t for t, s_ in zip(tt.columns["tableId"], tt.columns["summarySourceTable"]) if s_}

  def columns(self, t, helpers=False):
    cols = [c for c in self.e.schema[t].columns if c != "id"]
    if not helpers:
      cols = [c for c in cols if not c.startswith("gristHelper_")]
    # manualSort last, so that "the first columns" are the user's columns
    return [c for c in cols if c != "manualSort"] + [c for c in cols if c == "manualSort"]

  def row_ids(self, t):
    return list(self.e.fetch_table(t, formulas=False).row_ids)

  def tableref(self, t):
    tt = self.e.fetch_table("_grist_Tables")
    return tt.row_ids[list(tt.columns["tableId"]).index(t)]

  def colref(self, t, c):
    tr = self.tableref(t)
    td = self.e.fetch_table("_grist_Tables_column")
    for r, p, cid in zip(td.row_ids, td.columns["parentId"], td.columns["colId"]):
      if p == tr and cid == c:
        return r
    raise KeyError((t, c))


# ---------------------------------------------------------------------------------------------
# fixture catalogue: small documents built through public user actions

def _f_basic(d):
  d.apply(["AddTable", "A", [{"id": "Name", "type": "Text", "isFormula": False},
                             {"id": "K", "type": "Choice", "isFormula": False},
                             {"id": "N", "type": "Int", "isFormula": False},
                             {"id": "F", "type": "Any", "isFormula": True,
                              "formula": "$N * 2 if $N else $Name"}]])
  d.apply(["AddTable", "B", [{"id": "R", "type": "Ref:A", "isFormula": False},
                             {"id": "L", "type": "RefList:A", "isFormula": False},
                             {"id": "G", "type": "Any", "isFormula": True, "formula": "$R.Name"},
                             {"id": "H", "type": "Any", "isFormula": True,
                              "formula": "len(A.lookupRecords(K=$R.K))"},
                             {"id": "S", "type": "Numeric", "isFormula": True, "formula": "sum($L.N)"}]])
  d.apply(["BulkAddRecord", "A", [None] * 3, {"Name": ["a", "b", "c"], "K": ["x", "y", "x"], "N": [1, 2, 0]}])
  d.apply(["BulkAddRecord", "B", [None] * 3, {"R": [1, 2, 3], "L": [["L", 1, 2], ["L", 3], None]}])
  d.apply(["CreateViewSection", 1, 0, "record", [d.colref("A", "K")], None])   # summary of A by K


def _f_types(d):
  d.apply(["AddTable", "T", [{"id": "Tx", "type": "Text", "isFormula": False},
                             {"id": "I", "type": "Int", "isFormula": False},
                             {"id": "Nu", "type": "Numeric", "isFormula": False},
                             {"id": "Bo", "type": "Bool", "isFormula": False},
                             {"id": "Ch", "type": "Choice", "isFormula": False},
                             {"id": "CL", "type": "ChoiceList", "isFormula": False},
                             {"id": "Da", "type": "Date", "isFormula": False},
                             {"id": "DT", "type": "DateTime:America/New_York", "isFormula": False},
                             {"id": "An", "type": "Any", "isFormula": False},
                             {"id": "F1", "type": "Any", "isFormula": True,
                              "formula": "$I + 1 if $Bo else $Tx.upper()"},
                             {"id": "F2", "type": "Numeric", "isFormula": True, "formula": "$Nu * 2 + len($CL or [])"},
                             {"id": "F3", "type": "Text", "isFormula": True, "formula": "str($Da)[:4] + $Ch"}]])
  d.apply(["BulkAddRecord", "T", [None] * 3, {
    "Tx": ["a", "", "c"], "I": [1, 0, "alt"], "Nu": [1.5, 2, None], "Bo": [True, False, True],
    "Ch": ["x", "y", ""], "CL": [["L", "x"], ["L", "x", "y"], None],
    "Da": [86400, None, "bad"], "DT": [1700000000, 0, None], "An": [1, "s", ["L", 1]]}])


def _f_twoway(d):
  d.apply(["AddTable", "A", [{"id": "Name", "type": "Text", "isFormula": False}]])
  d.apply(["AddTable", "B", [{"id": "R", "type": "Ref:A", "isFormula": False},
                             {"id": "X", "type": "RefList:A", "isFormula": False},
                             {"id": "P", "type": "Any", "isFormula": True, "formula": "$R.Name"}]])
  d.apply(["BulkAddRecord", "A", [None] * 3, {"Name": ["a", "b", "c"]}])
  d.apply(["BulkAddRecord", "B", [None] * 3, {"R": [1, 0, 2], "X": [["L", 1, 2], None, ["L", 3]]}])
  d.apply(["AddReverseColumn", "B", "R"])
  d.apply(["AddReverseColumn", "B", "X"])


def _f_summary(d):
  d.apply(["AddTable", "P", [{"id": "Name", "type": "Text", "isFormula": False}]])
  d.apply(["BulkAddRecord", "P", [None] * 2, {"Name": ["p1", "p2"]}])
  d.apply(["AddTable", "S", [{"id": "K", "type": "Choice", "isFormula": False},
                             {"id": "CL", "type": "ChoiceList", "isFormula": False},
                             {"id": "R", "type": "Ref:P", "isFormula": False},
                             {"id": "RL", "type": "RefList:P", "isFormula": False},
                             {"id": "N", "type": "Int", "isFormula": False}]])
  d.apply(["BulkAddRecord", "S", [None] * 3, {
    "K": ["a", "b", "a"], "CL": [["L", "x"], ["L", "x", "y"], None],
    "R": [1, 2, 0], "RL": [["L", 1, 2], None, ["L", 2]], "N": [1, 2, 3]}])
  tr = d.tableref("S")
  d.apply(["CreateViewSection", tr, 0, "record", [d.colref("S", "K")], None])
  d.apply(["CreateViewSection", tr, 0, "record", [d.colref("S", "CL"), d.colref("S", "R")], None])
  st = [t for t in d.summary_tables() if t.endswith("_K")][0]
  d.apply(["AddColumn", st, "tot", {"type": "Numeric", "isFormula": True, "formula": "SUM($group.N)"}])


CNT = "(value or 0) + 1"
TRIG = {"T0": (0, []), "T1": (0, ["A"]), "T2": (0, ["F"]), "T3": (1, []), "T4": (2, []),
        "T5": (0, ["A", "T5"]), "T6": (0, ["B", "A"])}


def _f_trigger(d):
  d.apply(["AddTable", "T", [{"id": "A", "type": "Int", "isFormula": False},
                             {"id": "B", "type": "Int", "isFormula": False},
                             {"id": "F", "type": "Int", "isFormula": True, "formula": "$A * 10"}]])
  for name, (when, deps) in TRIG.items():
    d.apply(["AddColumn", "T", name, {"type": "Int", "isFormula": False, "formula": CNT,
                                     "recalcWhen": when, "recalcDeps": None}])
    if deps:
      d.apply(["UpdateRecord", "_grist_Tables_column", d.colref("T", name),
               {"recalcDeps": ["L"] + [d.colref("T", x) for x in deps]}])
  d.apply(["BulkAddRecord", "T", [None, None], {"A": [1, 2], "B": [5, 6]}])


def _f_trigger2(d):
  """trigger-formula columns that other formulas read (G is evaluated before T1/T5 in the default order), one whose
  formula raises where A is 0 (row 2 holds an error cell that remembers a falsy previous value)"""
  d.apply(["AddTable", "T", [{"id": "A", "type": "Int", "isFormula": False},
                             {"id": "B", "type": "Int", "isFormula": False},
                             {"id": "G", "type": "Int", "isFormula": True, "formula": "($T1 or 0) * 2 + ($T5 or 0)"}]])
  for name, deps, formula in (("T1", ["A"], CNT), ("T5", ["A", "T5"], CNT), ("E1", ["A"], "10 // $A")):
    d.apply(["AddColumn", "T", name, {"type": "Int", "isFormula": False, "formula": formula, "recalcWhen": 0, "recalcDeps": None}])
    d.apply(["UpdateRecord", "_grist_Tables_column", d.colref("T", name),
             {"recalcDeps": ["L"] + [d.colref("T", x) for x in deps]}])
  d.apply(["AddColumn", "T", "H", {"type": "Any", "isFormula": True, "formula": "$E1"}])
  d.apply(["BulkAddRecord", "T", [None, None], {"A": [1, 0], "B": [5, 6]}])
  d.apply(["UpdateRecord", "T", 1, {"A": 2}])


def _f_empties(d):
  """empty columns (isFormula=True, formula='') whose type was chosen before any value was entered: entering data converts
  them to data columns (C31: that conversion is not the user's own action)"""
  d.apply(["AddTable", "E", [{"id": "D", "type": "Text", "isFormula": False},
                             {"id": "F", "type": "Any", "isFormula": True, "formula": "$D.upper() + str($EI or '')"}]])
  for c, ty in (("ET", "Text"), ("EI", "Int"), ("EA", "Any"), ("EC", "Choice"), ("ED", "Date")):
    d.apply(["AddColumn", "E", c, {}])
    if ty != "Any":
      d.apply(["ModifyColumn", "E", c, {"type": ty}])
  d.apply(["BulkAddRecord", "E", [None, None], {"D": ["a", "b"]}])


def _f_cascade(d):
  """two-level auto-removal cascades: N refers (with a display helper column) to rows of a summary table of P and is
  itself summarised by that reference; N also has Ref/RefList DATA columns with default formulas pointing into P"""
  d.apply(["AddTable", "P", [{"id": "Category", "type": "Text", "isFormula": False},
                             {"id": "Amt", "type": "Int", "isFormula": False}]])
  d.apply(["BulkAddRecord", "P", [None] * 3, {"Category": ["lab", "home", "home"], "Amt": [1, 2, 3]}])
  d.apply(["CreateViewSection", d.tableref("P"), 0, "record", [d.colref("P", "Category")], None])
  st = sorted(d.summary_tables())[0]
  d.apply(["AddTable", "N", [{"id": "Cat", "type": "Ref:" + st, "isFormula": False},
                             {"id": "Txt", "type": "Text", "isFormula": False}]])
  d.apply(["UpdateRecord", "_grist_Tables_column", d.colref("N", "Cat"), {"visibleCol": d.colref(st, "Category")}])
  d.apply(["SetDisplayFormula", "N", None, d.colref("N", "Cat"), "$Cat.Category"])
  d.apply(["AddColumn", "N", "Own", {"type": "Ref:P", "isFormula": False, "formula": "P.lookupOne(Category='home')"}])
  d.apply(["AddColumn", "N", "Revs", {"type": "RefList:P", "isFormula": False, "formula": "P.lookupRecords(Category='home')"}])
  d.apply(["BulkAddRecord", "N", [None] * 3, {"Cat": [1, 0, 2], "Txt": ["x", "y", "z"]}])
  d.apply(["CreateViewSection", d.tableref("N"), 0, "record", [d.colref("N", "Cat")], None])


def _f_views(d):
  _f_basic(d)
  d.apply(["CreateViewSection", d.tableref("B"), 0, "record", None, None])   # new view with section of B
  d.apply(["CreateViewSection", d.tableref("A"), 1, "detail", None, None])   # section of A in view 1
  d.apply(["SetDisplayFormula", "B", None, d.colref("B", "R"), "$R.Name"])
  d.apply(["AddEmptyRule", "A", 0, d.colref("A", "N")])
  d.apply(["AddRecord", "_grist_Filters", None,
           {"viewSectionRef": 1, "colRef": d.colref("A", "K"), "filter": json.dumps({"included": ["x"]})}])


def _f_cycles(d):
  d.apply(["AddTable", "C", [{"id": "V", "type": "Int", "isFormula": False},
                             {"id": "X", "type": "Any", "isFormula": True, "formula": "$Y + 1"},
                             {"id": "Y", "type": "Any", "isFormula": True, "formula": "$V * 2"},
                             {"id": "Z", "type": "Any", "isFormula": True, "formula": "$X + $W if $V > 1 else $V"},
                             {"id": "W", "type": "Any", "isFormula": True, "formula": "$Z if $V > 2 else 0"}]])
  d.apply(["BulkAddRecord", "C", [None] * 3, {"V": [1, 2, 3]}])


def _f_lookup(d):
  d.apply(["AddTable", "D", [{"id": "K", "type": "Text", "isFormula": False},
                             {"id": "N", "type": "Int", "isFormula": False},
                             {"id": "CL", "type": "ChoiceList", "isFormula": False}]])
  d.apply(["AddTable", "Q", [{"id": "K", "type": "Text", "isFormula": False},
                             {"id": "cnt", "type": "Any", "isFormula": True,
                              "formula": "len(D.lookupRecords(K=$K))"},
                             {"id": "first", "type": "Any", "isFormula": True,
                              "formula": "D.lookupOne(K=$K, order_by='-N').N"},
                             {"id": "has", "type": "Any", "isFormula": True,
                              "formula": "[r.id for r in D.lookupRecords(CL=CONTAINS($K), order_by=('N', '-id'))]"},
                             {"id": "prev", "type": "Any", "isFormula": True,
                              "formula": "PREVIOUS(rec, order_by='K').id"}]])
  d.apply(["BulkAddRecord", "D", [None] * 4, {"K": ["a", "b", "a", ""], "N": [3, 1, 2, 2],
                                              "CL": [["L", "a"], ["L", "a", "b"], None, ["L", "b"]]}])
  d.apply(["BulkAddRecord", "Q", [None] * 3, {"K": ["a", "b", "z"]}])


FIXTURES = {"basic": _f_basic, "types": _f_types, "twoway": _f_twoway, "summary": _f_summary,
            "trigger": _f_trigger, "trigger2": _f_trigger2, "cascade": _f_cascade, "empties": _f_empties, "views": _f_views, "cycles": _f_cycles, "lookup": _f_lookup}


def build(name, replica=True):
  d = Doc(replica=replica)
  FIXTURES[name](d)
  d.fixture = name
  return d


class Saved(object):
  """A document state saved as the engine itself reports it (fetch_table of every table), from
  which fresh engines are loaded (load_meta_tables / load_table / load_done) - 2-3x cheaper than
  replaying the fixture's user actions, and fork-free (fork per run collapses under 16 parallel
  workers in this VM).  The replica is deep-copied."""

  def __init__(self, d):
    import copy
    self.tables = {t: d.e.fetch_table(t) for t in d.e.tables}
    self.rep = d.rep
    self.log = [list(b) for b in d.log]
    self.fixture = getattr(d, "fixture", None)

  @staticmethod
  def _copy_rep(rep):
    """structural copy of a TableDataSet (cell objects shared: deepcopy would clone the identity-
    compared sentinel inside RaisedException)"""
    import copy
    if rep is None:
      return None
    r = table_data_set.TableDataSet()
    for t, td in rep.all_tables.items():
      r.all_tables[t] = actions.TableData(td.table_id, list(td.row_ids),
                                          {c: list(v) for c, v in td.columns.items()})
    r._schema = {t: {c: dict(info) for c, info in cols.items()} for t, cols in rep._schema.items()}
    return r

  def restore(self):
    import copy
    d = Doc.__new__(Doc)
    e = engine_mod.Engine()
    others = e.load_meta_tables(self.tables["_grist_Tables"], self.tables["_grist_Tables_column"])
    for t in others:
      if t in self.tables:
        e.load_table(self.tables[t])
    e.load_done()
    # Node always applies Calculate right after loading (this also builds the trigger-formula
    # dependency edges, which the engine creates only at the end of the first apply_user_actions)
    e.apply_user_actions([UA(["Calculate"])])
    d.e = e
    d.rep = self._copy_rep(self.rep)
    d.log = [list(b) for b in self.log]
    d.fixture = self.fixture
    return d


# ---------------------------------------------------------------------------------------------
# action templates whose holes are solver variables

# a conditional self-join: only row 1 performs the lookup, so the lookup index is created in the
# middle of evaluating one cell (the shape incremental-recalculation bugs hide behind)
LOOK = "len({T}.lookupRecords({c0}={C0})) if $id == 1 else 0"
LOOK1 = "len({T}.lookupRecords({c1}={C1})) if $id == 1 else 0"


def _fill(f, t, t0, cols, avoid=None):
  # (never the column that receives the formula: self-references are the subject of C18, and an error
  # cell that went through a doc action makes dependants report a different exception class)
  cols = [c for c in cols if c != avoid] or ["id"]
  c0 = cols[0] if cols else "id"
  c1 = cols[1] if len(cols) > 1 else c0
  return (f.replace("{T0}", t0).replace("{T}", t).replace("{C0}", "$" + c0).replace("{c0}", c0)
          .replace("{C1}", "$" + c1).replace("{c1}", c1))


def _val(v, d, t, c, row):
  """'{DUP}' = the value the same column holds in another row (makes the edited row join that key)"""
  if v != "{DUP}":
    return v
  data = d.e.fetch_table(t, formulas=False)
  if c not in data.columns:
    return "x"
  for r, x in zip(data.row_ids, data.columns[c]):
    if r != row:
      return enc(x)
  return "x"


class Pools(object):
  FULL = dict(
    names=["Name", "Z", "def", "n", "a b", "", "K", "id", "T"],
    types=["Text", "Int", "Numeric", "Bool", "Any", "Choice", "ChoiceList", "Ref:{T0}", "RefList:{T0}",
           "Date", "DateTime:UTC"],
    vals=["x", "", None, 0, 5, 1.5, True, ["L", 1], ["L", 2, 1], "2020-01-02", -1, "{DUP}"],
    rows=["first", "last", "absent", "zero", "neg"],
    formulas=["1", "$id * 2", "rec.id +", "{C0}", "[r.id for r in {T0}.all]", LOOK, LOOK1],
  )
  SMALL = dict(
    names=["Z", "def", "K"],
    types=["Text", "Numeric", "ChoiceList", "RefList:{T0}"],
    vals=["x", None, 2, ["L", 1, 2], "{DUP}"],
    rows=["first", "last", "absent"],
    formulas=["$id * 2", "{C0}", LOOK, LOOK1],
  )

  MED = dict(
    names=["Name", "Z", "def", "a b", "", "K"],
    types=["Text", "Int", "Numeric", "Bool", "Any", "ChoiceList", "Ref:{T0}", "RefList:{T0}", "Date"],
    vals=["x", "", None, 0, 5, 1.5, True, ["L", 2, 1], "2020-01-02", "{DUP}"],
    rows=["first", "last", "absent", "neg"],
    formulas=["$id * 2", "rec.id +", "{C0}", LOOK, LOOK1],
  )
  TINY = dict(
    names=["Z", "K"],
    types=["Text", "RefList:{T0}"],
    vals=["x", 2],
    rows=["last", "absent"],
    formulas=["{C0}", LOOK, LOOK1],
    max_tables=2, max_cols=3,
  )
  MICRO = dict(
    names=["Z"], types=["Text", "Numeric"], vals=["x", "{DUP}"], rows=["last", "absent"], formulas=["{C0}", LOOK1],
    max_tables=1, max_cols=2, meta_fields=["colId", "type", "isFormula"],
  )
  max_tables = None
  max_cols = None

  meta_fields = ["colId", "type", "label", "isFormula", "formula", "recalcWhen", "untie"]

  def __init__(self, size="full", kinds=None):
    # "<size>-nf": no data<->formula switches (used where the property does not quantify over them)
    nf = size.endswith("-nf")
    size = size[:-3] if nf else size
    p = {"full": self.FULL, "small": self.SMALL, "med": self.MED, "tiny": self.TINY, "micro": self.MICRO}[size]
    self.__dict__.update(p)
    self.size = size
    self.kinds = kinds or ALL_KINDS
    if nf:
      self.meta_fields = [f for f in self.meta_fields if f not in ("isFormula", "formula")]
      if kinds is None:
        self.kinds = [k for k in ALL_KINDS if k != "ModifyFormula"]
      elif kinds == ["ModifyFormula"]:
        self.kinds = ["ModifyType"]


RECORD_KINDS = ["UpdateRecord", "BulkUpdateRecord", "AddRecord", "BulkAddRecord", "RemoveRecord",
                "BulkRemoveRecord"]
# ReplaceTableData (an importer-only action) is generated only where a check asks for it (C27)
SCHEMA_KINDS = ["AddColumn", "RemoveColumn", "RenameColumn", "ModifyType", "ModifyFormula", "RenameTable",
                "RemoveTable", "AddTable", "AddReverseColumn", "MetaCol", "Summary", "RemoveSection"]
ALL_KINDS = RECORD_KINDS + SCHEMA_KINDS


def _row(h, pfx, d, t, pools):
  rows = d.row_ids(t)
  r = h.choice(pfx + "row", pools.rows)
  if r == "first":
    return rows[0] if rows else 1
  if r == "last":
    return rows[-1] if rows else 1
  if r == "absent":
    return (max(rows) if rows else 0) + 2
  if r == "zero":
    return 0
  return -1


def gen_action(h, d, pfx, pools):
  """Instantiate one user action from holes.  Returns the action repr (list)."""
  kind = h.choice(pfx + "kind", pools.kinds)
  tables = d.user_tables()
  if not d.user_tables(summaries=False):
    # an earlier step removed the last user table: the only thing left to do is to add one
    return ["AddTable", "Z9", [{"id": "A", "type": "Text", "isFormula": False}]]
  t0 = d.user_tables(summaries=False)[0]
  if kind == "AddTable":
    name = h.choice(pfx + "name", pools.names)
    return ["AddTable", name, [{"id": "A", "type": "Text", "isFormula": False},
                               {"id": "B", "type": "Any", "isFormula": True, "formula": "$A"}]]
  if kind == "RawDup":
    # a stored doc action naming a row twice, replayed as it is through ApplyDocActions (the redo path: no user-level clean-up)
    t = h.choice(pfx + "table", d.user_tables(summaries=False))
    # (Text / Any columns: a stored action holds values already in the column's canonical form; for other types a value from
    # the pools would not be canonical, and the engine's normalisation on set is not what this template is about)
    dcols = [c for c in d.columns(t) if not d.e.schema[t].columns[c].isFormula and c != "manualSort"
             and d.e.schema[t].columns[c].type in ("Text", "Any")]
    rows = d.row_ids(t)[:2]
    if not dcols or not rows:
      return ["ApplyDocActions", []]
    c = h.choice(pfx + "col", dcols)
    v1 = _val(h.choice(pfx + "val", pools.vals), d, t, c, rows[0])
    v2 = _val(h.choice(pfx + "val2", Pools.SMALL["vals"]), d, t, c, rows[0])
    return ["ApplyDocActions", [["BulkUpdateRecord", t, [rows[0], rows[0]] + rows[1:], {c: [v1, v2] + [v1] * len(rows[1:])}]]]
  if kind == "Fail":
    # an action that always raises (unknown column): turns the bundle into a rolled-back one
    return ["UpdateRecord", t0, 1, {"NoSuchColumn_": 1}]
  if kind == "RemoveSection":
    # removing widgets (the last widget of a summary table removes the table: auto-removal cascades) or a whole view
    if h.bool(pfx + "view"):
      return ["RemoveRecord", "_grist_Views", h.int(pfx + "viewid", 1, 5)]
    return ["RemoveViewSection", h.int(pfx + "section", 1, 11)]
  if pools.max_tables:
    tables = tables[:pools.max_tables]
  t = h.choice(pfx + "table", tables)
  cols = d.columns(t)
  if pools.max_cols and len(cols) > pools.max_cols:
    # keep the first max_cols data columns and the first formula column
    sc = d.e.schema[t].columns
    fcols = [c for c in cols if sc[c].isFormula and sc[c].formula][:1] + [c for c in cols if sc[c].isFormula and not sc[c].formula][:2]
    cols = [c for c in cols if not sc[c].isFormula][:pools.max_cols] + fcols
  if kind == "ReplaceTableData":
    rows = d.row_ids(t)
    shape = h.choice(pfx + "shape", ["overlap", "fresh", "empty"])
    ids = {"overlap": rows[-1:] + [(max(rows) if rows else 0) + 1], "fresh": [None, None], "empty": []}[shape]
    dcols = [c for c in cols if not d.e.schema[t].columns[c].isFormula and c != "manualSort"]
    if dcols and ids:
      c = h.choice(pfx + "col", dcols)
      return ["ReplaceTableData", t, ids, {c: [h.choice(pfx + "val", pools.vals)] * len(ids)}]
    return ["ReplaceTableData", t, ids, {}]
  if kind in ("RenameTable",):
    return ["RenameTable", t, h.choice(pfx + "name", pools.names)]
  if kind == "RemoveTable":
    return ["RemoveTable", t]
  if kind == "AddRecord":
    if h.bool(pfx + "withval") and cols:
      c = h.choice(pfx + "col", cols)
      return ["AddRecord", t, None, {c: _val(h.choice(pfx + "val", pools.vals), d, t, c, None)}]
    return ["AddRecord", t, None, {}]
  if kind == "BulkAddRecord":
    ids = h.choice(pfx + "ids", [[None, None], [None, -1], [-1, -2], [(max(d.row_ids(t) or [0]) + 3)]])
    if h.bool(pfx + "withval") and cols:
      c = h.choice(pfx + "col", cols)
      v = _val(h.choice(pfx + "val", pools.vals), d, t, c, None)
      return ["BulkAddRecord", t, ids, {c: [v] * len(ids)}]
    return ["BulkAddRecord", t, ids, {}]
  if kind == "RemoveRecord":
    return ["RemoveRecord", t, _row(h, pfx, d, t, pools)]
  if kind == "BulkRemoveRecord":
    rows = d.row_ids(t)
    sel = h.choice(pfx + "sel", ["all", "firsttwo", "last+absent"])
    if sel == "all":
      return ["BulkRemoveRecord", t, rows]
    if sel == "firsttwo":
      return ["BulkRemoveRecord", t, rows[:2]]
    return ["BulkRemoveRecord", t, rows[-1:] + [(max(rows) if rows else 0) + 2]]
  if kind == "AddColumn":
    name = h.choice(pfx + "name", pools.names)
    shape = h.choice(pfx + "shape", ["empty", "data", "formula", "trigger"])
    if shape == "empty":
      return ["AddColumn", t, name, {}]
    if shape == "data":
      ty = h.choice(pfx + "type", pools.types).replace("{T0}", t0)
      return ["AddColumn", t, name, {"type": ty, "isFormula": False}]
    if shape == "formula":
      f = _fill(h.choice(pfx + "formula", pools.formulas), t, t0, cols)
      return ["AddColumn", t, name, {"type": "Any", "isFormula": True, "formula": f}]
    # a trigger formula that fails leaves an error cell that remembers the previous (falsy) value
    tf = h.choice(pfx + "tformula", ["$id + 1", "1 / ($id - $id)"])
    return ["AddColumn", t, name, {"type": "Int", "isFormula": False, "formula": tf,
                                   "recalcWhen": h.choice(pfx + "when", [0, 1, 2])}]
  if not cols:
    return ["RemoveTable", t]
  if kind not in ("UpdateRecord", "BulkUpdateRecord"):
    # schema changes to the position column itself are outside the claim (DESIGN C20)
    # ... and so are schema changes of a summary table's `group` helper column (observation in
    # DESIGN section 8: ModifyColumn <summary> group {type: RefList:<other>} never returns)
    cols = [x for x in cols if x != "manualSort" and not (x == "group" and t in d.summary_tables())] or cols
  c = h.choice(pfx + "col", cols)
  if kind == "UpdateRecord":
    row = _row(h, pfx, d, t, pools)
    return ["UpdateRecord", t, row, {c: _val(h.choice(pfx + "val", pools.vals), d, t, c, row)}]
  if kind == "BulkUpdateRecord":
    rows = d.row_ids(t)[:2]
    v1 = _val(h.choice(pfx + "val", pools.vals), d, t, c, rows[0] if rows else None)
    v2 = _val(h.choice(pfx + "val2", Pools.SMALL["vals"]), d, t, c, rows[-1] if rows else None)
    if rows and h.bool(pfx + "repeat"):
      # a row id named twice in one bulk update (clients and internal doc actions do this): the later value wins
      return ["BulkUpdateRecord", t, [rows[0], rows[0]] + rows[1:], {c: [v1, v2] + [v1] * len(rows[1:])}]
    return ["BulkUpdateRecord", t, rows, {c: [v1, v2][:len(rows)]}]
  if kind == "RemoveColumn":
    return ["RemoveColumn", t, c]
  if kind == "RenameColumn":
    return ["RenameColumn", t, c, h.choice(pfx + "name", pools.names)]
  if kind == "ModifyType":
    ty = h.choice(pfx + "type", pools.types).replace("{T0}", t0)
    return ["ModifyColumn", t, c, {"type": ty}]
  if kind == "ModifyFormula":
    shape = h.choice(pfx + "shape", ["toData", "toFormula", "newFormula"])
    if shape == "toData":
      return ["ModifyColumn", t, c, {"isFormula": False}]
    f = _fill(h.choice(pfx + "formula", pools.formulas), t, t0, cols, avoid=c)
    if shape == "toFormula":
      return ["ModifyColumn", t, c, {"isFormula": True, "formula": f}]
    return ["ModifyColumn", t, c, {"formula": f}]
  if kind == "AddReverseColumn":
    return ["AddReverseColumn", t, c]
  if kind == "MetaCol":
    ref = d.colref(t, c)
    field = h.choice(pfx + "field", pools.meta_fields)
    if field == "colId":
      return ["UpdateRecord", "_grist_Tables_column", ref, {"colId": h.choice(pfx + "name", pools.names)}]
    if field == "type":
      ty = h.choice(pfx + "type", pools.types).replace("{T0}", t0)
      return ["UpdateRecord", "_grist_Tables_column", ref, {"type": ty}]
    if field == "label":
      return ["UpdateRecord", "_grist_Tables_column", ref, {"label": h.choice(pfx + "name", pools.names)}]
    if field == "isFormula":
      return ["UpdateRecord", "_grist_Tables_column", ref, {"isFormula": h.bool(pfx + "flag")}]
    if field == "formula":
      f = _fill(h.choice(pfx + "formula", pools.formulas), t, t0, cols, avoid=c)
      return ["UpdateRecord", "_grist_Tables_column", ref, {"formula": f}]
    if field == "recalcWhen":
      return ["UpdateRecord", "_grist_Tables_column", ref, {"recalcWhen": h.choice(pfx + "when", [0, 1, 2])}]
    return ["UpdateRecord", "_grist_Tables_column", ref,
            {"untieColIdFromLabel": h.bool(pfx + "flag"), "label": h.choice(pfx + "name", pools.names)}]
  if kind == "Summary":
    shape = h.choice(pfx + "shape", ["create", "createEmpty", "detach"])
    if shape == "create":
      return ["CreateViewSection", d.tableref(t), 0, "record", [d.colref(t, c)], None]
    if shape == "createEmpty":
      return ["CreateViewSection", d.tableref(t), 0, "record", [], None]
    return ["DetachSummaryViewSection", h.int(pfx + "section", 1, 6)]
  raise AssertionError(kind)


# ---------------------------------------------------------------------------------------------
# oracles

def stored_reprs(ag):
  return [actions.get_action_repr(a) for a in ag.stored]


def undo_reprs(ag):
  return [actions.get_action_repr(a) for a in ag.undo]


def check_replica(d):
  """C02: the independent interpreter fed with the stored actions equals the engine."""
  s1 = snap(d.e)
  rep = d.rep.all_tables
  if set(rep) != set(s1):
    return "table sets differ: replica %s engine %s" % (sorted(rep), sorted(s1))
  for t in s1:
    td = rep[t]
    order = sorted(range(len(td.row_ids)), key=lambda i: td.row_ids[i])
    if [td.row_ids[i] for i in order] != s1[t][0]:
      return "%s row ids: replica %s engine %s" % (t, sorted(td.row_ids), s1[t][0])
    for c, vs in s1[t][1].items():
      if c not in td.columns:
        return "%s.%s missing in replica" % (t, c)
      rv = [enc(td.columns[c][i]) for i in order]
      if not eq(rv, vs):
        return "%s.%s: replica %s engine %s" % (t, c, rv, vs)
    extra = set(td.columns) - set(s1[t][1]) - {"id"}
    # private (helper) columns are fetched too, so any extra column is a divergence
    if extra:
      return "%s: replica has extra columns %s" % (t, sorted(extra))
  return None


def check_schema(e):
  """C08: the schema the engine generates code from equals the schema described by the metadata;
  (parentId, colId) unique; no column record of a nonexistent table."""
  try:
    e.assert_schema_consistent()
  except Exception as ex:
    return "assert_schema_consistent: %s" % (str(ex)[:300],)
  tt = e.fetch_table("_grist_Tables")
  tc = e.fetch_table("_grist_Tables_column")
  built = schema.build_schema(tt, tc)
  mine = {t: v for t, v in e.schema.items() if not t.startswith("_grist_")}
  theirs = {t: v for t, v in built.items() if not t.startswith("_grist_")}
  if set(mine) != set(theirs):
    return "table ids differ: engine %s metadata %s" % (sorted(mine), sorted(theirs))
  for t in mine:
    a = {c: tuple(v) for c, v in mine[t].columns.items()}
    b = {c: tuple(v) for c, v in theirs[t].columns.items()}
    if a != b:
      return "columns of %s differ: engine %s metadata %s" % (t, a, b)
  trows = set(tt.row_ids)
  seen = set()
  for r, p, c in zip(tc.row_ids, tc.columns["parentId"], tc.columns["colId"]):
    if p not in trows:
      return "column record %s (%s) belongs to nonexistent table %s" % (r, c, p)
    if (p, c) in seen:
      return "duplicate column record for table %s colId %s" % (p, c)
    seen.add((p, c))
  if len(set(tt.columns["tableId"])) != len(tt.row_ids):
    return "duplicate tableId in _grist_Tables: %s" % (list(tt.columns["tableId"]),)
  return None


def check_positions(e):
  """C20(c): position columns hold distinct finite values per table.  The column default (+inf, "not
  positioned": the default ACL rule row InitNewDoc creates by doc action) is exempt in metadata
  tables only."""
  import math
  for t in e.tables:
    table = e.tables[t]
    for cid, col in table.all_columns.items():
      if isinstance(col, colmod.PositionColumn):
        vals = [col.raw_get(r) for r in table.row_ids]
        if t.startswith("_grist_"):
          vals = [v for v in vals if v != col.getdefault()]
        for v in vals:
          if not isinstance(v, (int, float)) or isinstance(v, bool) or math.isinf(v) or v != v:
            return "%s.%s holds non-finite position %r" % (t, cid, v)
        if len(set(vals)) != len(vals):
          return "%s.%s positions not distinct: %s" % (t, cid, vals)
  return None


def check_direct(d, ag, bundle):
  """C31 on one reply: (1) flags parallel to stored; (2) rows added to / removed from a summary
  table (maintenance) are non-direct, unless the user aimed a record action at that summary table;
  (3) updates that write only formula columns are non-direct; (4) the stored record action that
  carries the user's own request (same table, same kind, only requested columns / requested new
  rows) is direct."""
  if len(ag.stored) != len(ag.direct):
    return "len(stored)=%d len(direct)=%d" % (len(ag.stored), len(ag.direct))
  summ = d.summary_tables()
  targeted = {ua[1] for ua in bundle if len(ua) > 1 and isinstance(ua[1], str)}
  reprs = [actions.get_action_repr(a) for a in ag.stored]
  # the statement quantifies over bundles of record edits: a bundle that also changes the schema (its columns may switch between
  # data and formula half way) is judged for clauses (1) and (2) only, unless it consists of that one action
  pure = all(u[0] in RECORD_KINDS and not str(u[1]).startswith("_grist_") for u in bundle)
  for r, direct in zip(reprs, ag.direct):
    t = r[1]
    if t in summ and t not in targeted and direct and r[0] in ("AddRecord", "BulkAddRecord", "RemoveRecord",
                                                             "BulkRemoveRecord"):
      return "summary-table maintenance marked direct: %s" % (r,)
    if r[0] in ("UpdateRecord", "BulkUpdateRecord") and not t.startswith("_grist_") and direct and (pure or len(bundle) == 1):
      tab = d.e.tables.get(t)
      cols = list(r[3])
      if tab is not None and cols and all(tab.has_column(c) and tab.get_column(c).is_formula() for c in cols):
        return "formula-result update marked direct: %s" % (r,)
  # clause (4) is judged only for bundles made of record edits: a type change in the same bundle emits
  # conversion deltas for the same cells, which are not the user's edits
  only_records = pure
  # clause (5): a bundle of record edits on user tables asks for no schema change: the conversion of an empty column while
  # data is entered (ModifyColumn / AddColumn doc actions and the matching _grist_Tables_column updates) is non-direct
  if only_records and not any(str(u[1]).startswith("_grist_") for u in bundle):
    for r, direct in zip(reprs, ag.direct):
      if direct and (r[0] in ("ModifyColumn", "AddColumn", "RemoveColumn", "RenameColumn", "AddTable", "RemoveTable", "RenameTable")
                     or r[1] in ("_grist_Tables_column", "_grist_Tables")):
        return "schema action marked direct in a bundle of record edits: %s" % (r,)
  # columns that this very reply converts from empty to data: the conversion itself writes the new column's default
  # values with a (non-direct) BulkUpdateRecord, and a requested value equal to that default leaves no action of its own
  converted = {(r[1], r[2]) for r in reprs if r[0] == "ModifyColumn" and isinstance(r[3], dict) and r[3].get("isFormula") is False}
  for ua in bundle:
    kind, table = ua[0], ua[1]
    if not only_records or kind not in RECORD_KINDS or table in summ or table.startswith("_grist_"):
      continue
    base = kind.replace("Bulk", "")
    asked = set(ua[3]) if len(ua) > 3 and isinstance(ua[3], dict) else set()
    for r, direct in zip(reprs, ag.direct):
      if r[1] != table or r[0].replace("Bulk", "") != base or direct:
        continue
      cols = set(r[3]) if len(r) > 3 and isinstance(r[3], dict) else set()
      if base == "UpdateRecord":
        tab = d.e.tables.get(table)
        # only an update restricted to columns the user asked for is surely the user's own edit
        # (columns with a formula - formula columns and trigger-formula columns - may be written by
        # the calc phase with the same shape of action, so they do not identify the user's edit)
        mine = bool(cols) and cols <= asked and tab is not None and not any(
          tab.has_column(c) and tab.get_column(c).has_formula() for c in cols) and not any((table, c) in converted for c in cols)
      else:
        mine = True
      if mine:
        return "user record edit not marked direct: %s" % (r,)
  return None


def summary_groupby_formula(e):
  """True when some summary table is grouped by a FORMULA column of its source table"""
  try:
    tc = e.fetch_table("_grist_Tables_column")
  except Exception:
    return False
  is_formula = dict(zip(tc.row_ids, tc.columns["isFormula"]))
  formula = dict(zip(tc.row_ids, tc.columns["formula"]))
  return any(src and is_formula.get(src) and formula.get(src) for src in tc.columns["summarySourceCol"])


def fresh_from(e, with_formulas):
  """Reload the document the way Node does: encode cells as in replies, marshal the non-primitive
  ones, decode with main._decode_db_value, load metadata first, then tables, then Calculate.
  with_formulas=False strips stored formula results (C05)."""
  e2 = engine_mod.Engine()

  def td(t, formulas=True):
    data = e.fetch_table(t, formulas=formulas)
    cols = {}
    for c, vs in data.columns.items():
      out = []
      for v in vs:
        ev = enc(v)
        if isinstance(ev, (list, dict)):
          out.append(main_mod._decode_db_value(marshal.dumps(ev)))
        else:
          out.append(main_mod._decode_db_value(ev))
      cols[c] = out
    return actions.TableData(t, list(data.row_ids), cols)

  others = e2.load_meta_tables(td("_grist_Tables"), td("_grist_Tables_column"))
  for t in others:
    if t in e.tables:
      if t.startswith("_grist_"):
        e2.load_table(td(t))
      else:
        e2.load_table(td(t, formulas=with_formulas))
  e2.load_done()
  ag = e2.apply_user_actions([UA(["Calculate"])])
  return e2, ag


def run_bundle_oracles(d, bundle, want, fault=None):
  """Apply `bundle` (list of user-action reprs) to doc d and evaluate the oracles named in `want`
  (subset of C01 C02 C03 C04 C08 C20 C31).  Returns (applied: bool, violations: [(pid, msg)])."""
  out = []
  s0 = snap(d.e)
  try:
    ag = d.apply(*bundle)
  except Exception as ex:
    if "C04" in want:
      r = snap_diff(snap(d.e), s0)
      if r:
        out.append(("C04", "bundle raised %s: %s but document changed: %s" % (type(ex).__name__, str(ex)[:120], r)))
      else:
        try:
          ag2 = d.e.apply_user_actions([UA(["Calculate"])])
          if ag2.stored or ag2.undo or ag2.calc:
            out.append(("C04", "Calculate after failed bundle emits %s" % (stored_reprs(ag2)[:2],)))
        except Exception as ex2:
          out.append(("C04", "Calculate after failed bundle raises %r" % (ex2,)))
    if "C08" in want:
      r = check_schema(d.e)
      if r:
        out.append(("C08", "after rollback: " + r))
    return False, out
  s1 = snap(d.e)
  if "C02" in want:
    r = check_replica(d)
    if r:
      out.append(("C02", r))
    if len(ag.stored) != len(ag.direct):
      out.append(("C02", "len(stored) != len(direct)"))
  if "C08" in want:
    r = check_schema(d.e)
    if r:
      out.append(("C08", r))
  if "C20" in want:
    r = check_positions(d.e)
    if r:
      out.append(("C20", r))
  if "C31" in want:
    r = check_direct(d, ag, bundle)
    if r:
      out.append(("C31", r))
  if "C01" in want or "C03" in want or "C08" in want:
    undo = undo_reprs(ag)
    stored = stored_reprs(ag)
    try:
      d.e.apply_user_actions([UA(["ApplyUndoActions", undo])])
    except Exception as ex:
      if "C01" in want:
        out.append(("C01", "ApplyUndoActions raised %s: %s" % (type(ex).__name__, str(ex)[:200])))
      if "C08" in want:
        r8 = check_schema(d.e)
        if r8:
          out.append(("C08", "after the rollback of a failed undo (%s): %s" % (type(ex).__name__, r8)))
      return True, out
    if "C08" in want:
      # applying the undo is itself a successful bundle
      r8 = check_schema(d.e)
      if r8:
        out.append(("C08", "after undo: " + r8))
    r = snap_diff(snap(d.e), s0)
    if r and "C01" in want:
      out.append(("C01", "after undo: " + r))
    if "C03" in want and not r:
      try:
        d.e.apply_user_actions([UA(["ApplyDocActions", stored])])
      except Exception as ex:
        out.append(("C03", "redo raised %s: %s" % (type(ex).__name__, str(ex)[:200])))
        return True, out
      r = snap_diff(snap(d.e), s1)
      if r:
        out.append(("C03", "after redo: " + r))
  return True, out


# ---------------------------------------------------------------------------------------------
# invariants for C09 C10 C11 C12 (evaluated after successful bundles)

META_REFS = []
for _a in schema.schema_create_actions():
  for _c in _a.columns:
    _ty = _c["type"]
    if _ty.startswith("Ref:") or _ty.startswith("RefList:"):
      META_REFS.append((_a.table_id, _c["id"], _ty.split(":")[1], _ty.startswith("RefList")))


def _ids_of(v):
  v = enc(v)
  if isinstance(v, list) and v and v[0] == "L":
    return [x for x in v[1:] if isinstance(x, int) and not isinstance(x, bool)]
  if isinstance(v, int) and not isinstance(v, bool) and v:
    return [v]
  return []


def check_meta(e):
  """C09: every metadata reference resolves; fields belong to their section's table; every user
  table has exactly one metadata record and a raw section; helper columns are still used."""
  rows = {t: set(e.fetch_table(t).row_ids) for t in e.tables if t.startswith("_grist_")}
  for (t, c, target, is_list) in META_REFS:
    if t not in e.tables:
      continue
    td = e.fetch_table(t)
    if c not in td.columns:
      continue
    for r, v in zip(td.row_ids, td.columns[c]):
      for i in _ids_of(v):
        if i not in rows.get(target, ()):
          return "%s[%s].%s -> %s[%s] does not exist" % (t, r, c, target, i)
  tt = e.fetch_table("_grist_Tables")
  ids = list(tt.columns["tableId"])
  for t in e.tables:
    if t.startswith("_grist_"):
      continue
    if ids.count(t) != 1:
      return "user table %s has %d metadata records" % (t, ids.count(t))
    if not tt.columns["rawViewSectionRef"][ids.index(t)]:
      return "user table %s has no raw view section" % t
  for t in ids:
    if t not in e.tables:
      return "metadata record for nonexistent table %s" % t
  f = e.fetch_table("_grist_Views_section_field")
  sct = e.fetch_table("_grist_Views_section")
  col = e.fetch_table("_grist_Tables_column")
  sec_table = dict(zip(sct.row_ids, sct.columns["tableRef"]))
  col_table = dict(zip(col.row_ids, col.columns["parentId"]))
  for r, p, cr in zip(f.row_ids, f.columns["parentId"], f.columns["colRef"]):
    if p in sec_table and cr in col_table and sec_table[p] != col_table[cr]:
      return "field %s: its section shows table %s but its column belongs to table %s" % (r, sec_table[p], col_table[cr])
    if p and p not in sec_table:
      return "field %s belongs to nonexistent section %s" % (r, p)
  # helper columns must be referenced by a column or field (display) / rules list
  used = set()
  for tname, cname in (("_grist_Tables_column", "displayCol"), ("_grist_Views_section_field", "displayCol")):
    used.update(x for x in e.fetch_table(tname).columns[cname] if x)
  for tname in ("_grist_Tables_column", "_grist_Views_section_field", "_grist_Views_section"):
    for v in e.fetch_table(tname).columns.get("rules", []):
      used.update(_ids_of(v))
  for r, cid in zip(col.row_ids, col.columns["colId"]):
    if (cid.startswith("gristHelper_Display") or cid.startswith("gristHelper_ConditionalRule")
        or cid.startswith("gristHelper_RowConditionalRule")) and r not in used:
      return "helper column %s (record %s) is not used by any column, field or rule list" % (cid, r)
  return None


def ref_columns(e):
  """[(table, col, target_table, is_list)] for data Ref/RefList columns of all tables"""
  out = []
  for t, st in e.schema.items():
    for c, sc in st.columns.items():
      if sc.isFormula:
        continue
      if sc.type.startswith("Ref:"):
        out.append((t, c, sc.type[4:], False))
      elif sc.type.startswith("RefList:"):
        out.append((t, c, sc.type[8:], True))
  return out


def check_removed_refs(e, s0, s1, removal_only):
  """C10: no data Ref cell points to a row removed by this bundle and no RefList contains one; for a
  bundle made of removals only, each RefList is its previous list minus the removed ids (None if empty)"""
  removed = {t: set(s0[t][0]) - set(s1[t][0]) if t in s1 else set(s0[t][0]) for t in s0}
  for (t, c, target, is_list) in ref_columns(e):
    if t not in s1 or c not in s1[t][1]:
      continue
    gone = removed.get(target, set())
    if not gone:
      continue
    for r, v in zip(s1[t][0], s1[t][1][c]):
      bad = [i for i in _ids_of(v) if i in gone]
      if bad:
        return "%s[%s].%s = %s still refers to removed %s row(s) %s" % (t, r, c, v, target, bad)
    if removal_only and t in s0 and c in s0[t][1]:
      old = dict(zip(s0[t][0], s0[t][1][c]))
      for r, v in zip(s1[t][0], s1[t][1][c]):
        if r not in old:
          continue
        ov = old[r]
        if isinstance(ov, list) and ov and ov[0] == "L":
          kept = [i for i in ov[1:] if i not in gone]
          exp = (["L"] + kept) if kept else None
          if not eq(v, exp) and any(i in gone for i in ov[1:]):
            return "%s[%s].%s was %s, removed %s -> expected %s, got %s" % (t, r, c, ov, sorted(gone), exp, v)
  return None


def check_twoway(e):
  """C11: for every pair of columns linked as reverses, a refers to b exactly when b refers to a"""
  tc = e.fetch_table("_grist_Tables_column")
  tt = e.fetch_table("_grist_Tables")
  tid = dict(zip(tt.row_ids, tt.columns["tableId"]))
  info = {r: (tid.get(p), c) for r, p, c in zip(tc.row_ids, tc.columns["parentId"], tc.columns["colId"])}
  for r, rev in zip(tc.row_ids, tc.columns["reverseCol"]):
    if not rev or rev not in info or r > rev:
      continue
    (ta, ca), (tb, cb) = info[r], info[rev]
    da, db = e.fetch_table(ta), e.fetch_table(tb)
    if ca not in da.columns or cb not in db.columns:
      return "reverse pair %s.%s / %s.%s: column missing" % (ta, ca, tb, cb)
    fa = {row: _ids_of(v) for row, v in zip(da.row_ids, da.columns[ca])}
    fb = {row: _ids_of(v) for row, v in zip(db.row_ids, db.columns[cb])}
    for a, bs in fa.items():
      for b in bs:
        if b in fb and a not in fb[b]:
          return "%s[%s].%s refers to %s[%s] but %s[%s].%s = %s" % (ta, a, ca, tb, b, tb, b, cb, fb[b])
    for b, as_ in fb.items():
      for a in as_:
        if a in fa and b not in fa[a]:
          return "%s[%s].%s refers to %s[%s] but %s[%s].%s = %s" % (tb, b, cb, ta, a, ta, a, ca, fa[a])
  return None


def _h(x):
  """hashable form of an encoded value"""
  if isinstance(x, (list, tuple)):
    return tuple(_h(y) for y in x)
  if isinstance(x, dict):
    return tuple(sorted((k, _h(v)) for k, v in x.items()))
  return x


def check_summaries(e):
  """C12: every summary table is the exact group-by of its source"""
  tt = e.fetch_table("_grist_Tables")
  tc = e.fetch_table("_grist_Tables_column")
  tids = list(tt.columns["tableId"])
  for trow, tname, src in zip(tt.row_ids, tids, tt.columns["summarySourceTable"]):
    if not src or src not in tt.row_ids:
      continue
    srcname = tids[tt.row_ids.index(src)]
    if tt.columns["summarySourceTable"][tt.row_ids.index(src)]:
      continue                             # a summary of a summary table: not a configuration the statement describes
    gcols = [c for p, c, sc in zip(tc.columns["parentId"], tc.columns["colId"], tc.columns["summarySourceCol"])
             if p == trow and sc]
    if srcname not in e.tables or tname not in e.tables:
      continue
    st, sm = e.fetch_table(srcname), e.fetch_table(tname)
    if any(c not in st.columns or c not in sm.columns for c in gcols) or "group" not in sm.columns:
      return "%s: group-by columns %s not present in source and summary" % (tname, gcols)
    srccols = {c: e.tables[srcname].get_column(c) for c in gcols}
    expected = {}
    for i, rid in enumerate(st.row_ids):
      parts, ok = [], True
      for c in gcols:
        v = st.columns[c][i]
        co = srccols[c]
        if isinstance(v, objtypes.RaisedException):
          ok = False                       # error cells in a group-by column: not specified, not judged
        elif isinstance(co, (colmod.ChoiceListColumn, colmod.ReferenceListColumn)):
          if v is None or (isinstance(v, (list, tuple)) and len(v) == 0):
            parts.append(["" if isinstance(co, colmod.ChoiceListColumn) else 0])
          elif isinstance(v, (list, tuple)):
            seen = []
            for x in v:
              if x not in seen:
                seen.append(x)
            parts.append(seen)
          elif hasattr(v, "_row_ids"):
            seen = []
            for x in v._row_ids:
              if x not in seen:
                seen.append(x)
            parts.append(seen or [0])
          else:
            ok = False
        else:
          if isinstance(v, (list, tuple, dict, set)) or hasattr(v, "_row_ids"):
            ok = False                     # a list-valued cell in a column that is not a list type (e.g. Any): not specified
            continue
          if isinstance(co, colmod.DateColumn) and not isinstance(co, colmod.DateTimeColumn) and isinstance(v, (int, float)) \
             and not isinstance(v, bool) and v == v and abs(v) < 1e15:
            v = ("day", int(v // 86400))          # Date cells group by calendar day, whatever the stored seconds
          parts.append([int(v) if hasattr(v, "_row_id") else v])
      if not ok:
        continue
      for key in itertools.product(*parts):
        expected.setdefault(tuple(_h(enc(k)) if not isinstance(k, (int, str, type(None), float, tuple)) else _h(k) for k in key), []).append(rid)
    got = {}
    for i, rid in enumerate(sm.row_ids):
      key = tuple(enc(sm.columns[c][i]) for c in gcols)
      key = tuple((["day", int(k // 86400)] if (isinstance(srccols[c], colmod.DateColumn) and not isinstance(srccols[c], colmod.DateTimeColumn)
                                                 and isinstance(k, (int, float)) and not isinstance(k, bool) and k == k and abs(k) < 1e15) else k)
                  for k, c in zip(key, gcols))
      key = tuple(_h(k) for k in key)
      if any(isinstance(k, tuple) and k and k[0] == "E" for k in key):
        continue                           # rows keyed by an error value: not judged (see above)
      try:
        if key in got:
          return "%s has two rows with key %s" % (tname, key)
      except TypeError:
        return "%s row %s has an unhashable key %s" % (tname, rid, key)
      grp = sm.columns["group"][i]
      got[key] = list(grp._row_ids if hasattr(grp, "_row_ids") else (_ids_of(grp)))
    try:
      exp = {tuple(_h(x) for x in k): v for k, v in expected.items()}
    except TypeError:
      continue
    if exp != got:
      miss = [k for k in exp if k not in got]
      extra = [k for k in got if k not in exp]
      wrong = [k for k in exp if k in got and exp[k] != got[k]]
      return "%s (group by %s of %s): missing keys %s, extra keys %s, wrong groups %s" % (
        tname, gcols, srcname, miss[:3], extra[:3], [(k, exp[k], got[k]) for k in wrong[:2]])
  return None
