"""Generic E2-enum runner: a property module supplies

  SHARDS(tier) -> list of shard parameter tuples (hashable, JSON-able)
  make_body(shard) -> body(h) returning {"nontrivial": bool, "violations": [{"msg", "witness", ["kind"]}], "sample": ...}
  replay(witness) -> list of violation messages (plain python, fresh state)
  META: dict(files=[...], oracle=str, rule=str, bounds=dict, assumptions=[...])

and this module does sharding over the worker pool, z3 AllSAT with cube blocking per shard, native
replay of every distinct candidate (through `vcheck replay`), known-findings matching and evidence."""
import os, re, json, subprocess
import common, enumz3


def _run_shard(modname, shard, seed, max_s):
  import importlib
  mod = importlib.import_module(modname)
  if hasattr(mod, "warm_up"):
    mod.warm_up()
  body = mod.make_body(shard)
  res = enumz3.allsat(body, seed=seed, max_s=max_s)
  return {"shard": shard, "runs": res.runs, "exhaustive": res.exhaustive, "solver_s": res.solver_s,
          "queries": res.queries, "nontrivial": res.nontrivial, "outputs": res.outputs, "errors": res.errors,
          "samples": res.samples, "stopped": res.stopped}


def run(pid, tier, seed, mod):
  ev = common.Evidence(pid, "exploration", tier, seed)
  shards = mod.SHARDS(tier)
  args = [(mod.__name__, sh[0], seed, common.fit_cap(sh[1], len(shards), tier)) for sh in shards]      # (shard params, max_s)
  results = common.pmap(_run_shard, args)
  runs = nontriv = queries = 0
  solver_s = 0.0
  harness, cand, not_ex = [], {}, []
  known = common.load_known()
  for a, (st, r) in zip(args, results):
    if st != "ok":
      if st == "died" and getattr(mod, "HANG_IS_VIOLATION", False):
        cur = r.get("cur", {})
        w = mod.hang_witness(a[1], cur.get("trace", {}))
        cand[("hang", json.dumps(cur.get("trace", {}), sort_keys=True))] = {
          "sig": {"pid": pid, "kind": "hang", "msg": "run did not terminate"}, "msg": "run did not terminate within %ds: %s" % (common.RUN_TIMEOUT_S, cur.get("trace")),
          "witness": w}
        continue
      harness.append("shard %s failed (%s): %s" % (a[1], st, str(r)[:1500]))
      continue
    runs += r["runs"]; nontriv += r["nontrivial"]; solver_s += r["solver_s"]; queries += r["queries"]
    if not r["exhaustive"]:
      not_ex.append({"shard": r["shard"], "runs": r["runs"], "stopped": r["stopped"]})
    for e in r["errors"]:
      harness.append("shard %s: %s" % (a[1], str(e)[-700:]))
    ev.add_samples([s for s in r["samples"] if s][:1], cap=10)
    for o in r["outputs"]:
      for v in o["violations"]:
        msg = re.sub(r"0x[0-9a-f]+", "0x", v["msg"])
        sig = {"pid": pid, "kind": v.get("kind", ""), "msg": msg[:400], "shard": json.dumps(a[1], default=repr),
               "witness": json.dumps(v["witness"], default=repr, sort_keys=True)[:2000]}
        sig.update(v.get("sig", {}))
        kf = common.match_known(pid, sig, known)
        key = (kf["id"],) if kf else (v.get("kind", ""), re.sub(r"[\d.]+", "#", msg)[:100], json.dumps(a[1], default=repr)[:80])
        if key not in cand:
          cand[key] = {"sig": sig, "msg": v["msg"], "witness": v["witness"]}
  if os.environ.get("VERIF_DUMP"):
    with open(os.environ["VERIF_DUMP"], "w") as f:
      for key, v in cand.items():
        f.write(json.dumps({"key": key, "msg": v["msg"], "w": v["witness"]}, default=repr) + "\n")
  confirmed = []
  for key, v in list(cand.items())[:60]:
    p = common.save_replay(pid, v["witness"])
    try:
      rp = subprocess.run([os.path.join(common.VERIF, "vcheck"), "replay", pid, p], capture_output=True, text=True,
                          timeout=common.RUN_TIMEOUT_S * 3)
      rc, out = rp.returncode, (rp.stdout + rp.stderr)
    except subprocess.TimeoutExpired:
      rc, out = (1 if v["sig"].get("kind") == "hang" else 3), "replay timed out"
    if rc == 1:
      confirmed.append(v)
    else:
      harness.append("counterexample did not reproduce natively: %s :: %s" % (p, out[-300:]))
      os.remove(p)
  meta = mod.META
  ev.cov.update({
    "evaluations": runs, "distinct_nontrivial": nontriv, "rule": meta["rule"],
    "exhaustive": not not_ex and not harness, "mode": "E2-enum",
    "shards": len(args), "shards_not_exhausted": not_ex[:20],
    "solver": "z3 %s" % __import__("z3").get_version_string(), "solver_queries": queries, "solver_s": round(solver_s, 2),
    "oracle": meta["oracle"], "functions_executed": common.code_ref(*meta["files"]),
    "bounds": dict(meta.get("bounds", {}), tier=tier), "candidates": len(cand), "replayed_confirmed": len(confirmed),
  })
  ev.assumptions = [common.SHIM_ASSUMPTION, "cube generalisation: a run's behaviour depends only on the holes it read"] + \
    list(meta.get("assumptions", []))
  return common.report(pid, ev, confirmed, harness)


def replay_cmd(pid, path, mod):
  with open(path) as f:
    w = json.load(f)
  msgs = mod.replay(w)
  if msgs:
    print("REPRODUCED property=%s %s" % (pid, str(msgs[0])[:600]))
    return 1
  print("not reproduced property=%s" % pid)
  return 0
