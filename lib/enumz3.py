"""E2-enum: z3 AllSAT loop over 'holes' with read-set cube blocking (DESIGN 2.2).

The body reads holes only through a Holes accessor.  Every hole (name, lo, hi) is one z3 Int with
the domain constraint lo <= v < hi.  After each concrete run the cube over the holes the run
actually consulted is blocked; the loop ends when the solver answers `unsat`, which certifies that
every point of the space the body can ask about lies in an executed cube.  The run itself is
concrete (the real engine on native values).
"""
import os, sys, time, pickle, random, traceback
import z3


class Holes(object):
  def __init__(self, assign, rnd=None):
    self._assign = assign
    self._rnd = rnd
    self.read = []          # (key, lo, hi, value) in read order
    self._seen = {}
    self.on_read = None

  def int(self, name, lo, hi):
    """integer in [lo, hi)"""
    assert hi > lo, (name, lo, hi)
    key = "%s|%d|%d" % (name, lo, hi)
    if key in self._seen:
      return self._seen[key]
    v = self._assign.get(key)
    if v is None or not (lo <= v < hi):
      v = self._rnd.randrange(lo, hi) if self._rnd is not None else lo
    self._seen[key] = v
    self.read.append((key, lo, hi, v))
    if self.on_read is not None:
      self.on_read(self)
    return v

  def choice(self, name, seq):
    return seq[self.int(name, 0, len(seq))]

  def bool(self, name):
    return bool(self.int(name, 0, 2))

  def trace(self):
    return {k.split('|')[0]: v for k, _, _, v in self.read}


class RunTimeout(BaseException):
  """raised inside a run by SIGALRM (BaseException so that the engine's own `except Exception`
  handlers do not swallow it)"""


def _on_alarm(signum, frame):
  raise RunTimeout("run exceeded the per-run time limit")


RUN_TIMEOUT_S = 30


def run_forked(fn, *args):
  """Run fn(*args) in a forked child (so a prebuilt fixture can be mutated freely); returns
  ('ok', result) or ('err', text).  A run that exceeds RUN_TIMEOUT_S is interrupted in the child
  (its traceback says where) and reported as ('err', ...)."""
  r, w = os.pipe()
  pid = os.fork()
  if pid == 0:
    code = 0
    try:
      os.close(r)
      import signal, resource
      signal.signal(signal.SIGALRM, _on_alarm)
      signal.alarm(RUN_TIMEOUT_S)
      try:
        resource.setrlimit(resource.RLIMIT_AS, (4 << 30, 4 << 30))
      except Exception:
        pass
      try:
        out = ("ok", fn(*args))
      except BaseException:
        out = ("err", traceback.format_exc()[-3000:])
      data = pickle.dumps(out, protocol=4)
      with os.fdopen(w, 'wb') as f:
        f.write(data)
    except BaseException:
      code = 1
    finally:
      os._exit(code)
  os.close(w)
  chunks = []
  with os.fdopen(r, 'rb') as f:
    while True:
      b = f.read(1 << 16)
      if not b:
        break
      chunks.append(b)
  _, status = os.waitpid(pid, 0)
  data = b"".join(chunks)
  if not data:
    return ("err", "child died with status %r and no output" % (status,))
  return pickle.loads(data)


class Result(object):
  """Outcome of one AllSAT loop (one shard)."""
  def __init__(self):
    self.runs = 0
    self.exhaustive = False
    self.solver_s = 0.0
    self.queries = 0
    self.outputs = []         # whatever body returned, with the trace, for non-None returns
    self.errors = []          # harness errors (exceptions escaping body)
    self.nvars = 0
    self.samples = []
    self.nontrivial = 0
    self.wall_s = 0.0
    self.stopped = None

  def merge(self, o):
    self.runs += o.runs
    self.solver_s += o.solver_s
    self.queries += o.queries
    self.outputs.extend(o.outputs)
    self.errors.extend(o.errors)
    self.nvars += o.nvars
    self.nontrivial += o.nontrivial
    for s in o.samples:
      if len(self.samples) < 12:
        self.samples.append(s)


def allsat(body, seed=0, max_runs=None, max_s=None, fork=False, sample_every=0, randomize=False):
  """body(holes) -> None | dict.  A returned dict may carry 'nontrivial': bool, 'violations': [...],
  'sample': anything.  Exceptions escaping body are harness errors."""
  res = Result()
  t0 = time.time()
  s = z3.Solver()
  s.set('random_seed', seed & 0x7fffffff)
  vars_ = {}
  rnd = random.Random(seed) if randomize else None
  while True:
    if max_runs is not None and res.runs >= max_runs:
      res.stopped = "max_runs"
      break
    if max_s is not None and time.time() - t0 > max_s:
      res.stopped = "max_s"
      break
    ts = time.time()
    r = s.check()
    res.solver_s += time.time() - ts
    res.queries += 1
    if r == z3.unsat:
      res.exhaustive = True
      break
    if r != z3.sat:
      res.errors.append("solver answered %s" % r)
      break
    m = s.model()
    assign = {}
    for key, var in vars_.items():
      val = m.eval(var, model_completion=True)
      assign[key] = val.as_long()
    h = Holes(assign, rnd)
    if fork:
      st, out = run_forked(_forked_body, body, h)
      if st == "ok":
        out, h.read, err = out
        if err is not None:
          res.errors.append({"error": err, "trace": h.trace()})
      else:
        res.errors.append({"error": out, "assign": assign})
        # cannot know the read set: block the full current assignment to make progress
        if not assign:
          break
        s.add(z3.Or([vars_[k] != v for k, v in assign.items()]))
        res.runs += 1
        continue
    else:
      import common
      h.on_read = lambda hh: common.cur_set({"shard": common._cur_shard[0], "trace": hh.trace()})
      common.watchdog_start()
      try:
        out = body(h)
      except Exception:
        res.errors.append({"error": traceback.format_exc()[-3000:], "trace": h.trace()})
        out = None
      finally:
        common.watchdog_stop()
    res.runs += 1
    for key, lo, hi, val in h.read:
      if key not in vars_:
        v = z3.Int(key)
        vars_[key] = v
        s.add(v >= lo, v < hi)
    if h.read:
      s.add(z3.Or([vars_[key] != val for key, lo, hi, val in h.read]))
    else:
      s.add(z3.BoolVal(False))
    if isinstance(out, dict):
      if out.get("nontrivial"):
        res.nontrivial += 1
      if out.get("violations"):
        res.outputs.append({"trace": h.trace(), "violations": out["violations"]})
      if out.get("sample") is not None and len(res.samples) < 12:
        if not sample_every or res.runs % sample_every == 1:
          res.samples.append(out["sample"])
  res.nvars = len(vars_)
  res.wall_s = time.time() - t0
  return res


def _forked_body(body, h):
  try:
    out = body(h)
  except Exception:
    return None, h.read, traceback.format_exc()[-3000:]
  return out, h.read, None
