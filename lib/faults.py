"""Fault injection for C04: the crash point is a solver variable.

`Engine.apply_doc_action` and `Engine.rebuild_usercode` are wrapped on the engine instance with a
counter; exactly one InjectedFault is raised at the j-th call of the chosen target, either before
the wrapped call runs or right after it returned.  The rollback's own calls are not faulted."""
import docfix as F


class InjectedFault(Exception):
  pass


class Injector(object):
  def __init__(self, engine, target=None, j=None, before=True):
    self.e = engine
    self.target, self.j, self.before = target, j, before
    self.counts = {"doc": 0, "rebuild": 0}
    self.fired = False
    self.in_rollback = False
    self._orig_doc = engine.apply_doc_action
    self._orig_reb = engine.rebuild_usercode
    self._orig_undo = engine._undo_to_checkpoint
    engine.apply_doc_action = self._doc
    engine.rebuild_usercode = self._reb
    engine._undo_to_checkpoint = self._undo

  def _undo(self, checkpoint):
    # the rollback's own doc actions are neither counted nor faulted
    self.in_rollback = True
    return self._orig_undo(checkpoint)

  def _maybe(self, kind, fn, args):
    if self.in_rollback:
      return fn(*args)
    k = self.counts[kind]
    self.counts[kind] += 1
    hit = (not self.fired) and self.target == kind and k == self.j
    if hit and self.before:
      self.fired = True
      raise InjectedFault("%s #%d before" % (kind, k))
    r = fn(*args)
    if hit:
      self.fired = True
      raise InjectedFault("%s #%d after" % (kind, k))
    return r

  def _doc(self, action):
    return self._maybe("doc", self._orig_doc, (action,))

  def _reb(self):
    return self._maybe("rebuild", self._orig_reb, ())

  def remove(self):
    try:
      del self.e.apply_doc_action
      del self.e.rebuild_usercode
      del self.e._undo_to_checkpoint
    except AttributeError:
      pass


def count_calls(d, uas):
  """fault-free run: number of wrapped calls made until the bundle returned or raised"""
  inj = Injector(d.e)
  try:
    d.apply(*uas)
    raised = None
  except Exception as ex:
    raised = type(ex).__name__
  inj.remove()
  return dict(inj.counts), raised


def check_no_trace(d, s0, ex):
  """the C04 oracle, evaluated after apply_user_actions raised.  Returns None or (kind, msg):
  kind 'changed'        - tables differ from the pre-state and a Calculate does not bring them back
       'pending_recalc' - tables differ, but the following Calculate restores the pre-state exactly
                          (the rollback left recomputation pending; the Calculate emits it)
       'calc_changes'   - tables equal, but the following Calculate emits actions
       'schema'         - engine schema and metadata disagree"""
  head = "bundle raised %s (%s)" % (type(ex).__name__, str(ex)[:100])
  diff0 = F.snap_diff(F.snap(d.e), s0)
  r = F.check_schema(d.e)
  if r:
    return ("schema", head + "; after the failed bundle: " + r)
  try:
    ag2 = d.e.apply_user_actions([F.UA(["Calculate"])])
  except Exception as ex2:
    return ("changed", head + "; Calculate after the failed bundle raises %s: %s" % (type(ex2).__name__, str(ex2)[:200]))
  emitted = bool(ag2.stored or ag2.undo or ag2.calc)
  diff1 = F.snap_diff(F.snap(d.e), s0)
  if diff1:
    return ("changed", head + " but the document changed%s: %s" % (" (after the following Calculate)" if not diff0 else "", diff1))
  if diff0:
    return ("pending_recalc", head + " and left recomputation pending: %s; the following Calculate emits %s" % (diff0, F.stored_reprs(ag2)[:2]))
  if emitted:
    return ("calc_changes", head + "; tables unchanged but the following Calculate emits %s" % (F.stored_reprs(ag2)[:2],))
  return None


def run_with_fault(d, uas, fault):
  """returns (raised: bool, msg|None)"""
  s0 = F.snap(d.e)
  inj = Injector(d.e, fault.get("target"), fault.get("j"), fault.get("before", True)) \
    if fault and fault.get("target") in ("doc", "rebuild") else None
  try:
    d.apply(*uas)
  except Exception as ex:
    if inj:
      inj.remove()
    return True, check_no_trace(d, s0, ex)
  if inj:
    inj.remove()
  return False, None
