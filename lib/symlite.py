"""E3 'symlite': run unmodified repository arithmetic on z3-backed numbers.

SNum wraps a z3 Int/Real term; arithmetic builds terms; a comparison used as a Python bool asks the
solver which outcomes are feasible under the current path condition and explores both by
deterministic re-execution (depth-first over a decision script).  C functions that call back into
__lt__ (bisect over the zone tables) work unchanged.  At the end of a path the caller's violation
formula is checked: unsat = the property holds on that path, sat = model -> concrete inputs,
anything else = inconclusive."""
import time
import z3


class Abort(BaseException):
  pass


class Ctx(object):
  cur = None

  def __init__(self, decisions):
    self.solver = z3.Solver()
    self.decisions = decisions
    self.pos = 0
    self.queries = 0
    self.solver_s = 0.0

  def _check(self, cond):
    t0 = time.time()
    self.solver.push()
    self.solver.add(cond)
    r = self.solver.check()
    self.solver.pop()
    self.queries += 1
    self.solver_s += time.time() - t0
    return r

  def branch(self, cond):
    cond = z3.simplify(cond)
    if z3.is_true(cond):
      return True
    if z3.is_false(cond):
      return False
    if self.pos < len(self.decisions):
      d = self.decisions[self.pos]
    else:
      rt = self._check(cond)
      rf = self._check(z3.Not(cond))
      if rt == z3.unknown or rf == z3.unknown:
        raise Abort("unknown")
      t_ok, f_ok = rt == z3.sat, rf == z3.sat
      if t_ok and f_ok:
        d = [True, True]          # [value, other side still pending]
      elif t_ok:
        d = [True, False]
      elif f_ok:
        d = [False, False]
      else:
        raise Abort("infeasible")
      self.decisions.append(d)
    self.pos += 1
    self.solver.add(cond if d[0] else z3.Not(cond))
    return d[0]


def explore(fn, setup, max_paths=200000):
  """fn(ctx) -> z3 Bool (violation condition) or None.  Returns dict(paths, queries, solver_s, bad=[models], unknown=int)."""
  decisions = []
  out = {"paths": 0, "queries": 0, "solver_s": 0.0, "bad": [], "unknown": 0}
  while True:
    c = Ctx(decisions)
    Ctx.cur = c
    setup(c)
    try:
      viol = fn(c)
      out["paths"] += 1
      if viol is not None:
        t0 = time.time()
        c.solver.push()
        c.solver.add(viol)
        r = c.solver.check()
        c.queries += 1
        if r == z3.sat:
          m = c.solver.model()
          out["bad"].append({str(d): str(m[d]) for d in m.decls()})
        elif r != z3.unsat:
          out["unknown"] += 1
        c.solver.pop()
        c.solver_s += time.time() - t0
    except Abort as a:
      if str(a) == "unknown":
        out["unknown"] += 1
    out["queries"] += c.queries
    out["solver_s"] += c.solver_s
    while decisions and not decisions[-1][1]:
      decisions.pop()
    if not decisions or out["paths"] >= max_paths:
      break
    decisions[-1] = [not decisions[-1][0], False]
  Ctx.cur = None
  return out


def _w(x):
  return x.e if isinstance(x, SNum) else x


def _real(e):
  return z3.ToReal(e) if z3.is_int(e) else e


class SNum(object):
  """z3 Int or Real term with Python number behaviour (exact arithmetic)."""
  __slots__ = ('e',)

  def __init__(self, e):
    self.e = e if z3.is_expr(e) else (z3.IntVal(e) if isinstance(e, int) else z3.RealVal(e))

  def _b(self, o, f):
    return SNum(f(self.e, _w(o) if isinstance(o, SNum) else (z3.IntVal(o) if isinstance(o, int) and not isinstance(o, bool) else
                                                                  (z3.RealVal(repr(o)) if isinstance(o, float) else o))))

  @staticmethod
  def _mix(a, b, f):
    if z3.is_expr(a) and z3.is_expr(b) and z3.is_int(a) != z3.is_int(b):
      a, b = _real(a), _real(b)
    return f(a, b)

  def __add__(self, o): return self._b(o, lambda a, b: SNum._mix(a, b, lambda x, y: x + y))
  __radd__ = __add__
  def __sub__(self, o): return self._b(o, lambda a, b: SNum._mix(a, b, lambda x, y: x - y))
  def __rsub__(self, o): return self._b(o, lambda a, b: SNum._mix(a, b, lambda x, y: y - x))
  def __mul__(self, o): return self._b(o, lambda a, b: SNum._mix(a, b, lambda x, y: x * y))
  __rmul__ = __mul__
  def __neg__(self): return SNum(-self.e)
  def __truediv__(self, o): return self._b(o, lambda a, b: _real(a) / _real(b))
  def __rtruediv__(self, o): return self._b(o, lambda a, b: _real(b) / _real(a))

  def __floordiv__(self, o):
    def f(a, b):
      if z3.is_int(a) and z3.is_int(b):
        return a / b                       # z3 integer division floors for positive divisors
      return z3.ToInt(_real(a) / _real(b))
    return self._b(o, f)

  def __mod__(self, o):
    return self._b(o, lambda a, b: a % b)

  def _c(self, o, f):
    return Ctx.cur.branch(self._b(o, lambda a, b: SNum._mix(a, b, f)).e)

  def __lt__(self, o): return self._c(o, lambda a, b: a < b)
  def __le__(self, o): return self._c(o, lambda a, b: a <= b)
  def __gt__(self, o): return self._c(o, lambda a, b: a > b)
  def __ge__(self, o): return self._c(o, lambda a, b: a >= b)
  def __eq__(self, o): return self._c(o, lambda a, b: a == b)
  def __ne__(self, o): return self._c(o, lambda a, b: a != b)
  __hash__ = None

  def __repr__(self):
    return "SNum(%s)" % self.e
