import sys, os, importlib, argparse
sys.path.insert(0, os.path.dirname(os.path.abspath(__file__)))
import common
common.setup_path()
sys.path.insert(0, os.path.join(common.VERIF, 'props'))

# property id -> module (in /verif/props)
REG = {}
for pid, mod in [
    ("C01", "p_bundles"), ("C02", "p_bundles"), ("C03", "p_bundles"), ("C08", "p_bundles"),
    ("C31", "p_bundles"), ("C09", "p_bundles"), ("C10", "p_bundles"), ("C11", "p_bundles"), ("C12", "p_bundles"), ("C36", "p_unit"), ("C40", "p_unit"), ("C37", "p_unit"), ("C21", "p_unit"), ("C22", "p_unit"), ("C14", "p_unit"), ("C38", "p_c38"), ("C25", "p_unit"), ("C27", "p_c27"), ("C28", "p_c28"), ("C41", "p_c41"), ("C29", "p_c29"), ("C23", "p_c23"), ("C39", "p_c39"), ("C26", "p_c26"), ("C18", "p_c18"), ("C19", "p_c19"), ("C16", "p_c16"), ("C13", "p_c13"), ("C15", "p_c15"), ("C34", "p_c34"), ("C35", "p_c35"), ("C20", "p_c20"), ("C24", "p_unit"), ("C32", "p_unit"), ("C33", "p_unit"), ("C17", "p_unit"), ("C04", "p_c04"), ("C05", "p_recalc"), ("C06", "p_recalc"), ("C07", "p_recalc"),
]:
  REG[pid] = mod
try:
  import registry
  REG.update(registry.REG)
except ImportError:
  pass


def main():
  if len(sys.argv) >= 2 and sys.argv[1] == "replay":
    pid, path = sys.argv[2], sys.argv[3]
    mod = importlib.import_module(REG[pid])
    sys.exit(mod.replay_cmd(pid, path))
  ap = argparse.ArgumentParser()
  ap.add_argument("pid")
  ap.add_argument("--tier", default=os.environ.get("VERIF_TIER", "quick"))
  a = ap.parse_args()
  os.environ["VERIF_TIER"] = a.tier
  seed = int(os.environ.get("VERIF_SEED", "0") or 0)
  mod = importlib.import_module(REG[a.pid])
  sys.exit(mod.run(a.pid, a.tier, seed))

main()
