"""C14 obligations: records.RecordSet.find.* and functions.prevnext (PREVIOUS / NEXT / RANK) against a
linear scan, over symbolic column contents, probe values and current rows.

A 25-line stand-in table supplies what these functions need from a table (get_column().get_cell_value,
Record, RecordSet, lookup_records = filter + sort with the real sort_key.make_sort_key); the engine-level
wiring of lookups is covered by C13."""
import os
from typing import List, Optional, Union
import records, sort_key
from functions import prevnext
try:
  from crosshair.core import realize
except ImportError:
  realize = lambda x: x

THOROUGH = os.environ.get("VERIF_TIER") == "thorough"
N1 = 4 if THOROUGH else 3
N2 = 4 if THOROUGH else 3
N3 = 3 if THOROUGH else 2


class Col(object):
  def __init__(self, vals):
    self.vals = vals

  def get_cell_value(self, r):
    return self.vals[r]


class Tab(object):
  table_id = "T"

  def __init__(self, **cols):
    self.cols = {k: Col([None] + list(v)) for k, v in cols.items()}
    self.n = len(next(iter(cols.values())))
    self.cols["id"] = Col(list(range(self.n + 1)))
    self._identity_relation = None
    t = self

    class Record(records.Record):
      _table = t

      def __getattr__(self, name):
        return t.cols[name].get_cell_value(self._row_id)

    class RecordSet(records.RecordSet):
      _table = t
    self.Record = Record
    self.RecordSet = RecordSet

  def get_column(self, c):
    return self.cols[c]

  def lookup_records(self, order_by=None, **kw):
    spec = (order_by,) if isinstance(order_by, str) else tuple(order_by)
    key = sort_key.make_sort_key(self, spec)
    ids = [r for r in range(1, self.n + 1) if all(self.cols[c].get_cell_value(r) == v for c, v in kw.items())]
    ids.sort(key=key)
    return self.RecordSet(ids, relation="rel", sort_key=key)


def _rid(rec):
  return rec._row_id


def find_one_col(vals: List[int], probe: int, desc: bool) -> bool:
  """
  pre: 1 <= len(vals) <= N1
  pre: all(0 <= v <= 3 for v in vals)
  post: _
  """
  t = Tab(X=vals)
  rs = t.lookup_records(order_by="-X" if desc else "X")
  ids = list(rs._row_ids)
  sg = -1 if desc else 1
  before = [r for r in ids if sg * vals[r - 1] < sg * probe]          # sort strictly before the probe
  upto = [r for r in ids if sg * vals[r - 1] <= sg * probe]
  after = [r for r in ids if sg * vals[r - 1] > sg * probe]
  from_ = [r for r in ids if sg * vals[r - 1] >= sg * probe]
  same = [r for r in ids if vals[r - 1] == probe]
  f = rs.find
  return (_rid(f.lt(probe)) == (before[-1] if before else 0) and _rid(f.le(probe)) == (upto[-1] if upto else 0)
          and _rid(f.gt(probe)) == (after[0] if after else 0) and _rid(f.ge(probe)) == (from_[0] if from_ else 0)
          and _rid(f.eq(probe)) == (same[0] if same else 0)
          # the ordered set itself: by value, ties by ascending row id
          and all((sg * vals[a - 1], a) < (sg * vals[b - 1], b) for a, b in zip(ids, ids[1:])))


def find_two_cols(xs: List[int], ys: List[int], px: int, py: int) -> bool:
  """
  pre: 1 <= len(xs) <= N2 and len(ys) == len(xs)
  pre: all(0 <= v <= 2 for v in xs) and all(0 <= v <= 2 for v in ys)
  post: _
  """
  t = Tab(X=xs, Y=ys)
  rs = t.lookup_records(order_by=("X", "-Y"))
  ids = list(rs._row_ids)
  k = lambda r: (xs[r - 1], -ys[r - 1])
  p = (px, -py)
  before = [r for r in ids if k(r) < p]
  upto = [r for r in ids if k(r) <= p]
  after = [r for r in ids if k(r) > p]
  from_ = [r for r in ids if k(r) >= p]
  same = [r for r in ids if k(r) == p]
  f = rs.find
  return (_rid(f.lt(px, py)) == (before[-1] if before else 0) and _rid(f.le(px, py)) == (upto[-1] if upto else 0)
          and _rid(f.gt(px, py)) == (after[0] if after else 0) and _rid(f.ge(px, py)) == (from_[0] if from_ else 0)
          and _rid(f.eq(px, py)) == (same[0] if same else 0)
          and all((k(a), a) < (k(b), b) for a, b in zip(ids, ids[1:])))


def prev_next_rank(gs: List[int], xs: List[int], cur: int, desc: bool) -> bool:
  """
  pre: 1 <= len(xs) <= N1 and len(gs) == len(xs)
  pre: all(0 <= v <= 2 for v in xs) and all(0 <= g <= 1 for g in gs)
  pre: 1 <= cur <= len(xs)
  post: _
  """
  cur = realize(cur)            # a row id: an index, realised (the cell contents stay symbolic)
  t = Tab(G=gs, X=xs)
  rec = t.Record(cur)
  ob = "-X" if desc else "X"
  sg = -1 if desc else 1
  grp = sorted([r for r in range(1, len(xs) + 1) if gs[r - 1] == gs[cur - 1]], key=lambda r: (sg * xs[r - 1], r))
  i = grp.index(cur)
  exp_prev = grp[i - 1] if i > 0 else 0
  exp_next = grp[i + 1] if i + 1 < len(grp) else 0
  return (_rid(prevnext.PREVIOUS(rec, group_by="G", order_by=ob)) == exp_prev
          and _rid(prevnext.NEXT(rec, group_by=("G",), order_by=(ob,))) == exp_next
          and prevnext.RANK(rec, group_by="G", order_by=ob) == i + 1
          and prevnext.RANK(rec, group_by="G", order_by=ob, order="desc") == len(grp) - i)


def find_mixed(vals: List[Union[int, None, str]], probe: Union[int, None, str]) -> bool:
  """
  pre: 1 <= len(vals) <= N3
  pre: all((not isinstance(v, int)) or 0 <= v <= 2 for v in vals)
  pre: all((not isinstance(v, str)) or len(v) <= 1 for v in vals)
  pre: (not isinstance(probe, str)) or len(probe) <= 1
  post: _
  """
  t = Tab(X=vals)
  rs = t.lookup_records(order_by="X")
  ids = list(rs._row_ids)

  def rank(v):   # documented precedence: None < numbers < other types (by type name), then by value
    return (0, 0) if v is None else ((1, v) if isinstance(v, int) else (2, v))
  before = [r for r in ids if rank(vals[r - 1]) < rank(probe)]
  after = [r for r in ids if rank(vals[r - 1]) > rank(probe)]
  f = rs.find
  return (_rid(f.lt(probe)) == (before[-1] if before else 0) and _rid(f.gt(probe)) == (after[0] if after else 0)
          and all((rank(vals[a - 1]), a) < (rank(vals[b - 1]), b) for a, b in zip(ids, ids[1:])))


OBLIGATIONS = [
  {"func": "find_one_col", "cond_timeout": 120, "desc": "find.lt/le/gt/ge/eq, one sort column asc/desc, duplicates, any integer probe"},
  {"func": "find_two_cols", "cond_timeout": 120, "desc": "find.* with order_by=(X, -Y) and two probe values"},
  {"func": "prev_next_rank", "cond_timeout": 120, "desc": "PREVIOUS/NEXT/RANK(asc, desc) with group_by, any current row"},
  {"func": "find_mixed", "cond_timeout": 120, "desc": "mixed-type sort values (int, None, str) follow the documented precedence"},
]
BOUNDS = {"rows": "<= %d (one column) / <= %d (two columns) / <= %d (mixed types)" % (N1, N2, N3), "cell values": "ints 0..3 with duplicates; None; 1-char strs",
          "probe values": "unbounded ints (symbolic)"}
FILES = ["sandbox/grist/records.py", "sandbox/grist/functions/prevnext.py", "sandbox/grist/sort_key.py"]
ASSUMPTIONS = ["stand-in table object (harness) instead of table.Table: lookup_records = filter + sort by the real make_sort_key"]
