"""C17 obligations: predicate_formula.process_renames with the ACL / dropdown-condition / trigger collectors
rewrites exactly the matching references.  The predicate text is built from symbolic indices into a bounded
grammar (text is realised at ast.parse: exhaustive solver-driven enumeration of the grammar)."""
import os, json
import predicate_formula as pf
import acl, dropdown_condition, trigger_expression

THOROUGH = os.environ.get("VERIF_TIER") == "thorough"
ATOMS = ["rec.X", "$X", "newRec.X", "oldRec.X", "choice.X", "user.Attr.X", "user.X", "other.X", "rec.Y", "rec.XX", "user.Attr.Y",
         "'X'", "X", "rec.X.X", "user.Other.X", "choice.id", "rec.X2"]
SHAPES = ["%s == 1", "%s in [%s, 2]", "not %s", "%s and %s", "%s or %s  # X comment", "(%s) != (%s)", "%s + %s > 0", "[%s, %s] == []",
          "%s.lower() == %s"]
NEW = ["Z", "X2", "a_b", "rec", "XX"]
INVALID = ["rec.X ==", "$", "rec.X and", "(rec.X", "rec..X", "lambda: rec.X", "", "rec.X = 1"]
COLLECTORS = [("acl", acl._ACLEntityCollector), ("dropdown", dropdown_condition._DCEntityCollector),
              ("trigger", trigger_expression._TriggerEntityCollector)]
# which entity type each scenario renames, and which parents of `.X` that corresponds to in the tree
SCEN = {
  ("acl", "recCol"): [["Name", "rec"], ["Name", "newRec"]],
  ("acl", "userAttr"): [["Name", "user"]],
  ("acl", "userAttrCol"): [["Attr", ["Name", "user"], "Attr"]],
  ("dropdown", "recCol"): [["Name", "rec"]],
  ("dropdown", "choiceAttr"): [["Name", "choice"]],
  ("trigger", "recCol"): [["Name", "rec"], ["Name", "oldRec"]],
}
SCEN_KEYS = sorted(SCEN)


def mk_text(si, a, b):
  sh = SHAPES[si]
  n = sh.count("%s")
  return sh % tuple([ATOMS[a], ATOMS[b]][:n])


def rename_tree(tree, parents, old, new, extra=None):
  if not isinstance(tree, list):
    return tree
  if tree and tree[0] == "Attr" and tree[2] == old and tree[1] in parents:
    return ["Attr", rename_tree(tree[1], parents, old, new), new]
  return [tree[0]] + [rename_tree(x, parents, old, new) for x in tree[1:]]


def _one(si, a, b, ci, ni):
  kind, ent = SCEN_KEYS[ci]
  cls = dict(COLLECTORS)[kind]
  new = NEW[ni]
  text = mk_text(si, a, b)
  old_name = "Attr" if ent == "userAttr" else "X"

  def renamer(e):
    if e.type != ent or e.name != old_name:
      return None
    if ent == "userAttrCol" and e.extra != "Attr":
      return None
    return new
  out = pf.process_renames(text, cls(), renamer)
  try:
    old_tree = pf.parse_predicate_formula(text)
  except SyntaxError:
    return out == text
  parents = SCEN[(kind, ent)]
  if ent == "userAttr":
    exp = rename_tree(old_tree, [["Name", "user"]], "Attr", new)
  else:
    exp = rename_tree(old_tree, parents, "X", new)
  new_tree = pf.parse_predicate_formula(out)
  if new_tree != exp:
    return False
  if exp == old_tree and out != text:
    return False                          # nothing to rename: text untouched
  # the stored parsed form is what parse_predicate_formula_json gives for the new text
  return json.loads(pf.parse_predicate_formula_json(out)) == exp if out else True


def renames(si: int, a: int, b: int, ci: int, ni: int) -> bool:
  """
  pre: 0 <= si < len(SHAPES) and 0 <= a < len(ATOMS) and 0 <= b < len(ATOMS)
  pre: 0 <= ci < len(SCEN_KEYS) and 0 <= ni < len(NEW)
  post: _
  """
  return _one(si, a, b, ci, ni)


def invalid_untouched(i: int, ci: int) -> bool:
  """
  pre: 0 <= i < len(INVALID) and 0 <= ci < len(SCEN_KEYS)
  post: _
  """
  kind, ent = SCEN_KEYS[ci]
  cls = dict(COLLECTORS)[kind]
  return pf.process_renames(INVALID[i], cls(), lambda e: "Z") == INVALID[i]


def _mk(k):
  n = len(SHAPES)
  return k, k + 1


def renames_shape(si: int, a: int, b: int, ci: int, ni: int) -> bool:
  """
  pre: 0 <= si < len(SHAPES) and 0 <= a < len(ATOMS) and 0 <= b < len(ATOMS)
  pre: 0 <= ci < len(SCEN_KEYS) and 0 <= ni < len(NEW)
  post: _
  """
  return _one(si, a, b, ci, ni)


def rename_case(si, a, b, ci, ni):
  return _one(si, a, b, ci, ni)


# ---------------------------------------------------------------------------------------------------------------
# engine-level wiring: a document with ACL resources and rules (the user-attribute rule placed before, between or
# after the formula rules), a dropdown condition and a trigger condition; a column or table is renamed through the
# public user actions and every stored text / parsed form / column list is compared with the expected rename

ETARGETS = [("A", "X"), ("A", "Y"), ("U", "Role"), ("U", "Email"), ("A", None), ("U", None)]
ENEW = ["Z", "Role", "X2"]
RULES = {
  "UA": {"resource": -1, "userAttributes": json.dumps({"name": "Attr", "charId": "Email", "tableId": "U", "lookupColId": "Email"})},
  "F1": {"resource": -2, "aclFormula": "user.Attr.Role == rec.X and newRec.Y > 1  # X Role", "permissionsText": "none"},
  "F2": {"resource": -3, "aclFormula": "$X != user.Attr.Email or rec.Y == 2 or user.Email == 'X'", "permissionsText": "all"},
}
ORDERS = [["UA", "F1", "F2"], ["F1", "UA", "F2"], ["F1", "F2", "UA"]]
DROPDOWN = "choice.Role == $X and rec.Y > 0 and choice.Email != 'Role'"
TRIGGER = "rec.Y > 1 and oldRec.X != rec.X"


def _edoc(order):
  import logging
  logging.disable(logging.CRITICAL)
  import engine, useractions
  e = engine.Engine()
  e.load_empty()
  ap = lambda *uas: e.apply_user_actions([useractions.from_repr(list(u)) for u in uas])
  ap(["AddTable", "U", [{"id": "Email", "type": "Text", "isFormula": False}, {"id": "Role", "type": "Text", "isFormula": False}]])
  ap(["AddTable", "A", [{"id": "X", "type": "Text", "isFormula": False}, {"id": "Y", "type": "Int", "isFormula": False},
                        {"id": "R", "type": "Ref:U", "isFormula": False}]])
  ap(["AddRecord", "_grist_ACLResources", -1, {"tableId": "*", "colIds": "*"}],
     ["AddRecord", "_grist_ACLResources", -2, {"tableId": "A", "colIds": "X,Y"}],
     ["AddRecord", "_grist_ACLResources", -3, {"tableId": "A", "colIds": "*"}],
     *[["AddRecord", "_grist_ACLRules", None, RULES[k]] for k in ORDERS[order]])
  ap(["ModifyColumn", "A", "R", {"widgetOptions": json.dumps({"dropdownCondition": {"text": DROPDOWN}})}])
  tref = [r for r, t in zip(e.fetch_table("_grist_Tables").row_ids, e.fetch_table("_grist_Tables").columns["tableId"]) if t == "A"][0]
  ap(["AddRecord", "_grist_Triggers", None, {"tableRef": tref, "condition": TRIGGER, "eventTypes": ["L", "add"], "enabled": True}])
  return e, ap


def _estate(e):
  rules = e.fetch_table("_grist_ACLRules")
  res = e.fetch_table("_grist_ACLResources")
  rmap = {r: (t, c) for r, t, c in zip(res.row_ids, res.columns["tableId"], res.columns["colIds"])}
  cols = e.fetch_table("_grist_Tables_column")
  tabs = e.fetch_table("_grist_Tables")
  tid = dict(zip(tabs.row_ids, tabs.columns["tableId"]))
  out = {"rules": [], "resources": sorted(rmap.values())}
  for i in range(len(rules.row_ids)):
    out["rules"].append({"res": rmap.get(rules.columns["resource"][i]), "text": rules.columns["aclFormula"][i],
                         "parsed": rules.columns["aclFormulaParsed"][i], "ua": rules.columns["userAttributes"][i]})
  for i, r in enumerate(cols.row_ids):
    wo = cols.columns["widgetOptions"][i]
    if wo and "dropdownCondition" in wo:
      out["dropdown"] = dict(json.loads(wo)["dropdownCondition"], table=tid[cols.columns["parentId"][i]], type=cols.columns["type"][i])
  trg = e.fetch_table("_grist_Triggers")
  out["trigger"] = dict(json.loads(trg.columns["condition"][0]), table=tid[trg.columns["tableRef"][0]])
  return out


def _expect_text(old_text, new_text, parsed, parents, old, new):
  """new text parses to the old tree with exactly `.old` under `parents` renamed; stored parsed form consistent"""
  old_tree = pf.parse_predicate_formula(old_text)
  exp = old_tree
  for par, o in parents:
    exp = rename_tree(exp, [par], o, new)
  got = pf.parse_predicate_formula(new_text)
  if got != exp:
    return "text %r -> %r: tree %s, expected %s" % (old_text, new_text, got, exp)
  if exp == old_tree and new_text != old_text:
    return "text %r changed to %r although nothing in it refers to the renamed column" % (old_text, new_text)
  p = json.loads(parsed) if isinstance(parsed, str) else parsed
  if p != exp:
    return "stored parsed form %s does not match the new text %r" % (p, new_text)
  return None


def engine_case(order, ti, ni, path):
  t, c = ETARGETS[ti]
  new = ENEW[ni]
  e, ap = _edoc(order)
  s0 = _estate(e)
  cols = e.fetch_table("_grist_Tables_column")
  tabs = e.fetch_table("_grist_Tables")
  tref = {tt: r for r, tt in zip(tabs.row_ids, tabs.columns["tableId"])}
  try:
    if c is None:
      if path == 0:
        ap(["RenameTable", t, new])
      else:
        ap(["UpdateRecord", "_grist_Tables", tref[t], {"tableId": new}])
    else:
      cref = [r for r, p, cc in zip(cols.row_ids, cols.columns["parentId"], cols.columns["colId"]) if p == tref[t] and cc == c][0]
      if path == 0:
        ap(["RenameColumn", t, c, new])
      else:
        ap(["UpdateRecord", "_grist_Tables_column", cref, {"colId": new}])
  except Exception:
    return True                  # rejected rename: nothing to judge
  s1 = _estate(e)
  if c is None:
    tabs1 = e.fetch_table("_grist_Tables")
    newt = dict(zip(tabs1.row_ids, tabs1.columns["tableId"]))[tref[t]]
    ren_t = lambda x: newt if x == t else x
    # formulas untouched, table ids follow
    for r0, r1 in zip(s0["rules"], s1["rules"]):
      if r1["text"] != r0["text"] or (r0["res"] and r1["res"] != (ren_t(r0["res"][0]), r0["res"][1])):
        raise AssertionError("table rename %s -> %s: rule %s became %s" % (t, newt, r0, r1))
      if r0["ua"]:
        u0, u1 = json.loads(r0["ua"]), json.loads(r1["ua"])
        if u1 != dict(u0, tableId=ren_t(u0["tableId"])):
          raise AssertionError("table rename %s -> %s: user attribute %s became %s" % (t, newt, u0, u1))
    if s1["dropdown"]["text"] != s0["dropdown"]["text"] or s1["trigger"]["text"] != s0["trigger"]["text"]:
      raise AssertionError("table rename changed a condition text")
    return True
  cols1 = e.fetch_table("_grist_Tables_column")
  newc = dict(zip(cols1.row_ids, cols1.columns["colId"]))[cref]
  attr_table = "U"
  for r0, r1 in zip(s0["rules"], s1["rules"]):
    if r0["ua"]:
      u0, u1 = json.loads(r0["ua"]), json.loads(r1["ua"])
      exp = dict(u0, lookupColId=newc) if (u0["tableId"] == t and u0["lookupColId"] == c) else u0
      if u1 != exp:
        raise AssertionError("rename %s.%s -> %s: user attribute %s became %s, expected %s" % (t, c, newc, u0, u1, exp))
    if r0["res"]:
      rt, rc = r0["res"]
      exp_c = ",".join(newc if (rt == t and x == c) else x for x in rc.split(","))
      if r1["res"] != (rt, exp_c):
        raise AssertionError("rename %s.%s -> %s: resource %s became %s" % (t, c, newc, r0["res"], r1["res"]))
    if r0["text"]:
      parents = []
      if r0["res"] and r0["res"][0] == t:
        parents += [(["Name", "rec"], c), (["Name", "newRec"], c)]
      if attr_table == t:
        parents += [(["Attr", ["Name", "user"], "Attr"], c)]
      m = _expect_text(r0["text"], r1["text"], r1["parsed"], parents, c, newc)
      if m:
        raise AssertionError("rename %s.%s -> %s (user-attribute rule at position %d): ACL rule: %s" % (t, c, newc, ORDERS[order].index("UA"), m))
  d0, d1 = s0["dropdown"], s1["dropdown"]
  parents = ([(["Name", "rec"], c)] if d0["table"] == t else []) + ([(["Name", "choice"], c)] if d0["type"] == "Ref:" + t else [])
  m = _expect_text(d0["text"], d1["text"], d1.get("parsed"), parents, c, newc)
  if m:
    raise AssertionError("rename %s.%s -> %s: dropdown condition: %s" % (t, c, newc, m))
  g0, g1 = s0["trigger"], s1["trigger"]
  parents = [(["Name", "rec"], c), (["Name", "oldRec"], c)] if g0["table"] == t else []
  m = _expect_text(g0["text"], g1["text"], g1.get("parsed"), parents, c, newc)
  if m:
    raise AssertionError("rename %s.%s -> %s: trigger condition: %s" % (t, c, newc, m))
  return True


LEVEL = "exploration"
OBLIGATIONS = []
ENUM = [
  {"func": "rename_case", "domains": {"ci": list(range(len(SCEN_KEYS))), "si": list(range(len(SHAPES))), "a": list(range(len(ATOMS))),
                                      "b": list(range(len(ATOMS))), "ni": list(range(len(NEW)))}, "shard_by": "ci", "max_s": 400,
   "desc": "parsed(new text) == old tree with exactly the matching .X renamed, for every text of the grammar, scenario and new name"},
  {"func": "engine_case", "domains": {"order": [0, 1, 2], "ti": list(range(len(ETARGETS))), "ni": list(range(len(ENEW))), "path": [0, 1]},
   "shard_by": "ti", "max_s": 300,
   "desc": "engine level: ACL rules (user-attribute rule before / between / after the formula rules), resources, lookupColId, a dropdown "
           "condition and a trigger condition after RenameColumn / RenameTable / metadata colId, tableId updates"},
  {"func": "invalid_untouched", "domains": {"i": list(range(len(INVALID))), "ci": list(range(len(SCEN_KEYS)))}, "max_s": 60,
   "desc": "texts that do not parse are returned unchanged"},
]
BOUNDS = {"texts": "%d shapes x %d x %d atoms" % (len(SHAPES), len(ATOMS), len(ATOMS)), "new names": NEW, "scenarios": [list(k) for k in SCEN_KEYS],
          "invalid texts": INVALID,
          "engine level": {"targets": [list(x) for x in ETARGETS], "new names": ENEW, "rule orders": ORDERS}}
FILES = ["sandbox/grist/useractions.py", "sandbox/grist/predicate_formula.py", "sandbox/grist/acl.py", "sandbox/grist/dropdown_condition.py", "sandbox/grist/trigger_expression.py",
         "sandbox/grist/textbuilder.py"]
ASSUMPTIONS = ["predicate text is concrete per run (ast.parse is C): the grammar is enumerated by the z3 AllSAT loop, not symbolic",
               "engine level: one document (tables A, U; 3 ACL resources; 3 rules in 3 orders; one dropdown and one trigger condition), "
               "6 rename targets x 3 new names x 2 rename paths"]
