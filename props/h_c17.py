"""C17 obligations: predicate_formula.process_renames with the ACL / dropdown-condition / trigger collectors
rewrites exactly the matching references.  The predicate text is built from symbolic indices into a bounded
grammar (text is realised at ast.parse: exhaustive solver-driven enumeration of the grammar)."""
import os, json
import predicate_formula as pf
import acl, dropdown_condition, trigger_expression

THOROUGH = os.environ.get("VERIF_TIER") == "thorough"
ATOMS = ["rec.X", "$X", "newRec.X", "oldRec.X", "choice.X", "user.Attr.X", "user.X", "other.X", "rec.Y", "rec.XX", "user.Attr.Y",
         "'X'", "X", "rec.X.X", "user.Other.X", "choice.id", "rec.X2"]
SHAPES = ["%s == 1", "%s in [%s, 2]", "not %s", "%s and %s", "%s or %s  # X comment", "(%s) != (%s)", "%s + %s > 0", "[%s, %s] == []",
          "%s.lower() == %s"]
NEW = ["Z", "X2", "a_b", "rec", "XX"]
INVALID = ["rec.X ==", "$", "rec.X and", "(rec.X", "rec..X", "lambda: rec.X", "", "rec.X = 1"]
COLLECTORS = [("acl", acl._ACLEntityCollector), ("dropdown", dropdown_condition._DCEntityCollector),
              ("trigger", trigger_expression._TriggerEntityCollector)]
# which entity type each scenario renames, and which parents of `.X` that corresponds to in the tree
SCEN = {
  ("acl", "recCol"): [["Name", "rec"], ["Name", "newRec"]],
  ("acl", "userAttr"): [["Name", "user"]],
  ("acl", "userAttrCol"): [["Attr", ["Name", "user"], "Attr"]],
  ("dropdown", "recCol"): [["Name", "rec"]],
  ("dropdown", "choiceAttr"): [["Name", "choice"]],
  ("trigger", "recCol"): [["Name", "rec"], ["Name", "oldRec"]],
}
SCEN_KEYS = sorted(SCEN)


def mk_text(si, a, b):
  sh = SHAPES[si]
  n = sh.count("%s")
  return sh % tuple([ATOMS[a], ATOMS[b]][:n])


def rename_tree(tree, parents, old, new, extra=None):
  if not isinstance(tree, list):
    return tree
  if tree and tree[0] == "Attr" and tree[2] == old and tree[1] in parents:
    return ["Attr", rename_tree(tree[1], parents, old, new), new]
  return [tree[0]] + [rename_tree(x, parents, old, new) for x in tree[1:]]


def _one(si, a, b, ci, ni):
  kind, ent = SCEN_KEYS[ci]
  cls = dict(COLLECTORS)[kind]
  new = NEW[ni]
  text = mk_text(si, a, b)
  old_name = "Attr" if ent == "userAttr" else "X"

  def renamer(e):
    if e.type != ent or e.name != old_name:
      return None
    if ent == "userAttrCol" and e.extra != "Attr":
      return None
    return new
  out = pf.process_renames(text, cls(), renamer)
  try:
    old_tree = pf.parse_predicate_formula(text)
  except SyntaxError:
    return out == text
  parents = SCEN[(kind, ent)]
  if ent == "userAttr":
    exp = rename_tree(old_tree, [["Name", "user"]], "Attr", new)
  else:
    exp = rename_tree(old_tree, parents, "X", new)
  new_tree = pf.parse_predicate_formula(out)
  if new_tree != exp:
    return False
  if exp == old_tree and out != text:
    return False                          # nothing to rename: text untouched
  # the stored parsed form is what parse_predicate_formula_json gives for the new text
  return json.loads(pf.parse_predicate_formula_json(out)) == exp if out else True


def renames(si: int, a: int, b: int, ci: int, ni: int) -> bool:
  """
  pre: 0 <= si < len(SHAPES) and 0 <= a < len(ATOMS) and 0 <= b < len(ATOMS)
  pre: 0 <= ci < len(SCEN_KEYS) and 0 <= ni < len(NEW)
  post: _
  """
  return _one(si, a, b, ci, ni)


def invalid_untouched(i: int, ci: int) -> bool:
  """
  pre: 0 <= i < len(INVALID) and 0 <= ci < len(SCEN_KEYS)
  post: _
  """
  kind, ent = SCEN_KEYS[ci]
  cls = dict(COLLECTORS)[kind]
  return pf.process_renames(INVALID[i], cls(), lambda e: "Z") == INVALID[i]


def _mk(k):
  n = len(SHAPES)
  return k, k + 1


def renames_shape(si: int, a: int, b: int, ci: int, ni: int) -> bool:
  """
  pre: 0 <= si < len(SHAPES) and 0 <= a < len(ATOMS) and 0 <= b < len(ATOMS)
  pre: 0 <= ci < len(SCEN_KEYS) and 0 <= ni < len(NEW)
  post: _
  """
  return _one(si, a, b, ci, ni)


def rename_case(si, a, b, ci, ni):
  return _one(si, a, b, ci, ni)


OBLIGATIONS = []
ENUM = [
  {"func": "rename_case", "domains": {"ci": list(range(len(SCEN_KEYS))), "si": list(range(len(SHAPES))), "a": list(range(len(ATOMS))),
                                      "b": list(range(len(ATOMS))), "ni": list(range(len(NEW)))}, "shard_by": "ci", "max_s": 400,
   "desc": "parsed(new text) == old tree with exactly the matching .X renamed, for every text of the grammar, scenario and new name"},
  {"func": "invalid_untouched", "domains": {"i": list(range(len(INVALID))), "ci": list(range(len(SCEN_KEYS)))}, "max_s": 60,
   "desc": "texts that do not parse are returned unchanged"},
]
BOUNDS = {"texts": "%d shapes x %d x %d atoms" % (len(SHAPES), len(ATOMS), len(ATOMS)), "new names": NEW, "scenarios": [list(k) for k in SCEN_KEYS],
          "invalid texts": INVALID}
FILES = ["sandbox/grist/predicate_formula.py", "sandbox/grist/acl.py", "sandbox/grist/dropdown_condition.py", "sandbox/grist/trigger_expression.py",
         "sandbox/grist/textbuilder.py"]
ASSUMPTIONS = ["predicate text is concrete per run (ast.parse is C): the grammar is enumerated by the z3 AllSAT loop, not symbolic; engine-level "
               "wiring (perform_*_renames on metadata records) is not covered here"]
