# coding=utf-8
"""C21 obligations: identifiers.pick_col_ident / pick_table_ident / pick_col_ident_list on symbolic names."""
import os, re, keyword
from typing import List, Optional
import identifiers

THOROUGH = os.environ.get("VERIF_TIER") == "thorough"
ML = 3 if THOROUGH else 2
# ASCII letters/digits/underscore/space/dash, accented, sharp s, dotless i, ligature, Arabic digit,
# superscript two, CJK, a combining accent, dollar
ALPHA = u"aZ_09 -éßıﬁ١²中́$"
AVOID = [set(), {"A", "B"}, {"a", "A2", "z", "Z2", "c0", "T0"}, {"DEF", "c0", "Table1", "TABLE2", "id", "C", "cdef", "e"}]
_plain = re.compile(r"^[A-Za-z][A-Za-z0-9_]*$")


def _alpha(s):
  return all(c in ALPHA for c in s)


def _valid(r, avoid, table):
  return (isinstance(r, str) and r.isidentifier() and not keyword.iskeyword(r) and not r.startswith("_")
          and not r[0].isdigit() and r.isascii() and (not table or r[0].isupper())
          and r.upper() not in {x.upper() for x in avoid} and r.lower() not in {x.lower() for x in avoid})


def col_ident(s: str, a: int) -> bool:
  """
  pre: len(s) <= ML and _alpha(s)
  pre: 0 <= a < len(AVOID)
  post: _
  """
  avoid = AVOID[a]
  r = identifiers.pick_col_ident(s, avoid=set(avoid))
  ok = _valid(r, avoid, False)
  if _plain.match(s) and not keyword.iskeyword(s) and s.upper() not in {x.upper() for x in avoid}:
    ok = ok and r == s                 # already valid and unused: kept as is
  return ok


def table_ident(s: str, a: int) -> bool:
  """
  pre: len(s) <= ML and _alpha(s)
  pre: 0 <= a < len(AVOID)
  post: _
  """
  avoid = AVOID[a]
  r = identifiers.pick_table_ident(s, avoid=set(avoid))
  ok = _valid(r, avoid, True)
  if _plain.match(s) and s[0].isupper() and not keyword.iskeyword(s) and s.upper() not in {x.upper() for x in avoid}:
    ok = ok and r == s
  return ok


def none_ident(a: int) -> bool:
  """
  pre: 0 <= a < len(AVOID)
  post: _
  """
  avoid = AVOID[a]
  return (_valid(identifiers.pick_col_ident(None, avoid=set(avoid)), avoid, False)
          and _valid(identifiers.pick_table_ident(None, avoid=set(avoid)), avoid, True))


_KW = sorted(set(keyword.kwlist) | {"match", "case", "type", "_"})
KW_NAMES = sorted({f(k) for k in _KW for f in (str.lower, str.upper, str.capitalize, lambda x: " " + x, lambda x: x + " ", lambda x: "_" + x,
                                                lambda x: x.lower() + "!", lambda x: "1" + x.lower(), lambda x: x[:1] + " " + x[1:],
                                                lambda x: x.lower().replace("e", "é"))})


def keyword_name(k, a, table):
  """requested names that are, or sanitise to, Python keywords in any capitalisation (None / True / False are only
  reached after capitalising a table id)"""
  avoid = AVOID[a]
  s = KW_NAMES[k]
  r = (identifiers.pick_table_ident if table else identifiers.pick_col_ident)(s, avoid=set(avoid))
  ok = _valid(r, avoid, table)
  if _plain.match(s) and (s[0].isupper() or not table) and not keyword.iskeyword(s) and s.upper() not in {x.upper() for x in avoid}:
    ok = ok and r == s
  return ok


def ident_list(s1: str, s2: str, s3: Optional[str], a: int) -> bool:
  """
  pre: len(s1) <= ML - 1 and len(s2) <= ML - 1 and _alpha(s1) and _alpha(s2)
  pre: s3 is None or (len(s3) <= 1 and _alpha(s3))
  pre: 0 <= a < len(AVOID)
  post: _
  """
  avoid = AVOID[a]
  rs = identifiers.pick_col_ident_list([s1, s2, s3], avoid=set(avoid))
  return (len(rs) == 3 and all(_valid(r, avoid, False) for r in rs)
          and len({r.upper() for r in rs}) == 3 and len({r.lower() for r in rs}) == 3)


OBLIGATIONS = [
  {"func": "col_ident", "cond_timeout": 150, "desc": "column id valid, unused case-insensitively, identity on valid unused names"},
  {"func": "table_ident", "cond_timeout": 150, "desc": "table id valid, starts uppercase, unused, identity on valid unused names"},
  {"func": "none_ident", "cond_timeout": 60, "desc": "no requested name"},
]
_ONE = [""] + list(ALPHA)
ENUM = [{"func": "keyword_name", "domains": {"k": list(range(len(KW_NAMES))), "a": list(range(len(AVOID))), "table": [False, True]}, "shard_by": "a",
         "max_s": 100, "desc": "%d names derived from every Python keyword (lower / upper / capitalised / padded / prefixed / accented) as column and table names" % len(KW_NAMES)},
        {"func": "ident_list", "domains": {"a": list(range(len(AVOID))), "s1": _ONE, "s2": _ONE, "s3": [None] + list(ALPHA)},
         "shard_by": "a", "max_s": 300, "desc": "batch of 3 (each <= 1 char or None): all valid, distinct from the avoid set and from each other"}]
BOUNDS = {"requested name": "len <= %d over the 16-symbol alphabet %r (or None)" % (ML, ALPHA),
          "existing-name sets": [sorted(x) for x in AVOID], "batch": "3 names (lengths <= %d, %d, 1)" % (ML - 1, ML - 1)}
FILES = ["sandbox/grist/identifiers.py"]
ASSUMPTIONS = ["'already valid' = ASCII [A-Za-z][A-Za-z0-9_]*, not a keyword (tables: first letter uppercase)",
               "strings are realised by CrossHair at unicodedata.normalize (C); the verdict is an exhaustive solver-driven "
               "enumeration of the bounded alphabet, not a symbolic proof over all Unicode"]
