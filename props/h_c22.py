"""C22 obligations: usertypes.<Type>.convert is total, lands in the type (or alt-text / the same error
object) and is idempotent, for symbolic inputs of each kind."""
import os, math, datetime
from typing import List, Union, Optional
import usertypes, objtypes, moment

THOROUGH = os.environ.get("VERIF_TIER") == "thorough"
SL = 2 if THOROUGH else 1

TYPES = [usertypes.Text(), usertypes.Blob(), usertypes.Any(), usertypes.Bool(), usertypes.Int(), usertypes.Numeric(),
         usertypes.Date(), usertypes.DateTime("America/New_York"), usertypes.Choice(), usertypes.ChoiceList(),
         usertypes.PositionNumber(), usertypes.ManualSortPos(), usertypes.Id(), usertypes.Reference("T"),
         usertypes.ReferenceList("T"), usertypes.Attachments()]
NT = len(TYPES)
BIG = [2 ** 31, 2 ** 31 - 1, -2 ** 31, -2 ** 31 - 1, 2 ** 53, 2 ** 53 + 1, 10 ** 30, -10 ** 30, 2 ** 63, 1000001]
FLOATS = [float("inf"), float("-inf"), float("nan"), -0.0, 1e308, 0.5, -1.5, 2.0 ** 53, 1e15, 1e16, 1.0e-7, 253402300800.0]
_D = datetime
DATES = [_D.date(1970, 1, 1), _D.date(9999, 12, 31), _D.date(1, 1, 1), _D.datetime(2020, 3, 8, 2, 30),
         _D.datetime(2020, 1, 1, tzinfo=moment.TZ_UTC), _D.datetime(1969, 12, 31, 23, 59, 59, 999999)]
SPECIAL = [objtypes.AltText("x", "Int"), objtypes.AltText("1", "Int"), objtypes.RaisedException(ValueError("boom")),
           objtypes.RaisedException(None), b"", b"ab", b"\xff", (1, 2), ("a",), [], [[1], [2]], {"a": 1}, {1, 2}, object,
           objtypes.UnmarshallableValue("u"), objtypes.RecordList([1, 2]), 1 + 2j, range(3)]


def _same(a, b):
  if isinstance(a, float) and isinstance(b, float) and a != a and b != b:
    return True
  return type(a) == type(b) and a == b


def _check(t, v):
  a = t.convert(v)
  if isinstance(v, objtypes.RaisedException):
    if a is not v:
      return False
  elif not (isinstance(a, str) or t.is_right_type(a)):
    return False
  b = t.convert(a)
  return _same(a, b)


def conv_int(ti: int, v: int) -> bool:
  """
  pre: 0 <= ti < NT and ti != 1 and -4 <= v <= 4
  post: _
  """
  return _check(TYPES[ti], v)


def conv_bigint(ti, k):
  return _check(TYPES[ti], BIG[k])


def conv_bool_none(ti: int, v: Optional[bool]) -> bool:
  """
  pre: 0 <= ti < NT and ti != 1
  post: _
  """
  return _check(TYPES[ti], v)


def conv_float(ti: int, num: int, den: int) -> bool:
  """
  pre: 0 <= ti < NT and ti != 1 and -6 <= num <= 6 and 1 <= den <= 4
  post: _
  """
  return _check(TYPES[ti], num / den)


def conv_special_float(ti, k):
  return _check(TYPES[ti], FLOATS[k])


def conv_str(ti: int, v: str) -> bool:
  """
  pre: 0 <= ti < NT and ti != 1 and len(v) <= SL
  post: _
  """
  return _check(TYPES[ti], v)


def conv_numeric_str(ti, k):
  return _check(TYPES[ti], NUMSTR[k])


NUMSTR = ["1", "-1", "1.5", "1e3", "0x10", " 2 ", "1_0", "inf", "nan", "-0", "2147483648", "1e400", "١", "true", "False", "no",
          "[1]", '["a"]', "[1, 2", "2020-01-02", "2020-01-02T03:04:05Z", "Table1[1]", "T[[1, 2]]", "", " ", "\x00", "\ud800"]


LIST_ITEMS = [0, 1, 3, -1, "a", "", "1", None, True, 1.5, [1]]


def conv_list_enum(ti, a, b, n):
  return _check(TYPES[ti], [LIST_ITEMS[a], LIST_ITEMS[b]][:n]) and _check(TYPES[ti], tuple([LIST_ITEMS[a], LIST_ITEMS[b]][:n]))


def conv_int_enum(ti, v):
  return _check(TYPES[ti], v)


def conv_float_enum(ti, num, den):
  return _check(TYPES[ti], num / den)


def conv_list(ti: int, v: List[Union[int, str]]) -> bool:
  """
  pre: 0 <= ti < NT and ti != 1 and len(v) <= 2
  pre: all((not isinstance(x, str)) or len(x) <= 1 for x in v)
  pre: all((not isinstance(x, int)) or -2 <= x <= 3 for x in v)
  post: _
  """
  return _check(TYPES[ti], v)


def conv_date(ti, k):
  return _check(TYPES[ti], DATES[k])


def conv_special(ti, k):
  return _check(TYPES[ti], SPECIAL[k])


# Reference model of the one conversion whose rule is written down next to the code (usertypes.Text.do_convert: "format as
# integer if possible to avoid scientific notation" for whole numbers a double holds exactly, i.e. of magnitude below
# 2**53; 15 significant digits otherwise), written independently and compared on both sides of every boundary.
TEXT_NUMS = [0.0, -0.0, 1.0, -1.0, 12.5, -12.5, 1234567890.0, -1234567890.0, float(2 ** 53 - 1), -float(2 ** 53 - 1), float(2 ** 53), -float(2 ** 53),
             float(2 ** 53 + 2), -float(2 ** 53 + 2), 1.5e16, -1.5e16, 1e20, -1e20, 1e300, -1e300, 0.1, -0.1, 1e-7, 123456789012345.6, -123456789012345.6,
             float("inf"), float("-inf"), float("nan"), 5, -5, 2 ** 53, -2 ** 53, 2 ** 64, -2 ** 64, True, False, None, b"ab", "x"]


def _text_reference(v):
  if v is None:
    return None
  if isinstance(v, bytes):
    return v.decode("utf8")
  if isinstance(v, float):
    if v != v or v in (float("inf"), float("-inf")):
      return str(v)
    if -(2 ** 53) < v < 2 ** 53 and v == int(v):
      return str(int(v))
    return "%.15g" % v
  return str(v)


def text_reference(k):
  got, want = usertypes.Text().convert(TEXT_NUMS[k]), _text_reference(TEXT_NUMS[k])
  return type(got) == type(want) and got == want


BLOB_IN = [5, True, 1.5, [1], "x", None, b"ab"]


def conv_blob(k):
  return _check(TYPES[1], BLOB_IN[k])


def conv_str_enum(ti, v):
  return _check(TYPES[ti], v)


_CH = ["", "1", "a", "-", ".", "e", "[", "]", '"', " ", "T", "é", "٣", "0"]
_TI = [i for i in range(NT) if i != 1]
ENUM = [
  {"func": "conv_str_enum", "domains": {"ti": _TI, "v": sorted({a + b for a in _CH for b in _CH})},
   "shard_by": "ti", "max_s": 200, "desc": "every string of <= 2 characters over %d interesting characters x every type" % (len(_CH) - 1)},
  {"func": "conv_int_enum", "domains": {"ti": _TI, "v": list(range(-4, 5))}, "shard_by": None, "max_s": 100, "desc": "ints -4..4 x every type"},
  {"func": "conv_bigint", "domains": {"ti": _TI, "k": list(range(len(BIG)))}, "shard_by": None, "max_s": 100, "desc": "boundary ints (2^31, 2^53, 10^30, ...) x every type"},
  {"func": "conv_float_enum", "domains": {"ti": _TI, "num": list(range(-6, 7)), "den": [1, 2, 3, 4]}, "shard_by": None, "max_s": 100,
   "desc": "rationals num/den, |num| <= 6, den <= 4 x every type"},
  {"func": "conv_special_float", "domains": {"ti": _TI, "k": list(range(len(FLOATS)))}, "shard_by": None, "max_s": 100, "desc": "inf, -inf, nan, -0.0, 1e308, ... x every type"},
  {"func": "conv_numeric_str", "domains": {"ti": _TI, "k": list(range(len(NUMSTR)))}, "shard_by": None, "max_s": 100, "desc": "numeric/date/JSON-looking strings x every type"},
  {"func": "conv_list_enum", "domains": {"ti": _TI, "a": list(range(len(LIST_ITEMS))), "b": list(range(len(LIST_ITEMS))), "n": [0, 1, 2]}, "shard_by": "ti", "max_s": 100,
   "desc": "lists and tuples of <= 2 items out of %r x every type" % (LIST_ITEMS,)},
  {"func": "conv_date", "domains": {"ti": _TI, "k": list(range(len(DATES)))}, "shard_by": None, "max_s": 100, "desc": "dates and datetimes x every type"},
  {"func": "conv_special", "domains": {"ti": _TI, "k": list(range(len(SPECIAL)))}, "shard_by": None, "max_s": 100,
   "desc": "AltText, errors, bytes, tuples, dicts, sets, RecordList, complex, ... x every type"},
  {"func": "text_reference", "domains": {"k": list(range(len(TEXT_NUMS)))}, "shard_by": None, "max_s": 60,
   "desc": "Text.convert of numbers on both sides of +-2^53 and other boundaries equals an independently written reference of the documented rule"},
  {"func": "conv_blob", "domains": {"k": list(range(len(BLOB_IN)))}, "shard_by": None, "max_s": 60, "desc": "Blob column type (known finding: identity conversion)"},
]

OBLIGATIONS = [
  {"func": "conv_int", "cond_timeout": 60, "desc": "every int -4..4 x every type (symbolic)"},
  {"func": "conv_bool_none", "cond_timeout": 60, "desc": "True/False/None x every type"},
  {"func": "conv_float", "cond_timeout": 60, "desc": "rationals num/den, |num| <= 6, den <= 4 x every type (real-arithmetic floats: counterexample search only)"},
  {"func": "conv_str", "cond_timeout": 100, "desc": "every str (any characters) of len <= %d x every type (symbolic; may be inconclusive)" % SL},
  {"func": "conv_list", "cond_timeout": 100, "desc": "lists of <= 2 small ints / 1-char strs x every type (symbolic; may be inconclusive)"},
]
BOUNDS = {"types": [t.typename() for t in TYPES], "str": "len <= %d, any characters (symbolic); <= 2 over %d characters (enumerated)" % (SL, len(_CH) - 1),
          "ints": "[-4, 4] + %d boundary values" % len(BIG), "floats": "num/den grid + %d specials" % len(FLOATS), "lists": "len <= 2"}
FILES = ["sandbox/grist/usertypes.py", "sandbox/grist/objtypes.py"]
ASSUMPTIONS = ["the type index is realised (one path family per column type); ints pass through int(float(v)) in Int.do_convert and "
               "are realised there", "catalogue inputs (indices into fixed lists of concrete objects) are enumerated by the z3 AllSAT loop and run natively"]
