"""C22 obligations: usertypes.<Type>.convert is total, lands in the type (or alt-text / the same error
object) and is idempotent, for symbolic inputs of each kind."""
import os, math, datetime
from typing import List, Union, Optional
import usertypes, objtypes, moment

THOROUGH = os.environ.get("VERIF_TIER") == "thorough"
SL = 3 if THOROUGH else 2

TYPES = [usertypes.Text(), usertypes.Blob(), usertypes.Any(), usertypes.Bool(), usertypes.Int(), usertypes.Numeric(),
         usertypes.Date(), usertypes.DateTime("America/New_York"), usertypes.Choice(), usertypes.ChoiceList(),
         usertypes.PositionNumber(), usertypes.ManualSortPos(), usertypes.Id(), usertypes.Reference("T"),
         usertypes.ReferenceList("T"), usertypes.Attachments()]
NT = len(TYPES)
BIG = [2 ** 31, 2 ** 31 - 1, -2 ** 31, -2 ** 31 - 1, 2 ** 53, 2 ** 53 + 1, 10 ** 30, -10 ** 30, 2 ** 63, 1000001]
FLOATS = [float("inf"), float("-inf"), float("nan"), -0.0, 1e308, 0.5, -1.5, 2.0 ** 53, 1e15, 1e16, 1.0e-7, 253402300800.0]
_D = datetime
DATES = [_D.date(1970, 1, 1), _D.date(9999, 12, 31), _D.date(1, 1, 1), _D.datetime(2020, 3, 8, 2, 30),
         _D.datetime(2020, 1, 1, tzinfo=moment.TZ_UTC), _D.datetime(1969, 12, 31, 23, 59, 59, 999999)]
SPECIAL = [objtypes.AltText("x", "Int"), objtypes.AltText("1", "Int"), objtypes.RaisedException(ValueError("boom")),
           objtypes.RaisedException(None), b"", b"ab", b"\xff", (1, 2), ("a",), [], [[1], [2]], {"a": 1}, {1, 2}, object,
           objtypes.UnmarshallableValue("u"), objtypes.RecordList([1, 2]), 1 + 2j, range(3)]


def _same(a, b):
  if isinstance(a, float) and isinstance(b, float) and a != a and b != b:
    return True
  return type(a) == type(b) and a == b


def _check(t, v):
  a = t.convert(v)
  if isinstance(v, objtypes.RaisedException):
    if a is not v:
      return False
  elif not (isinstance(a, str) or t.is_right_type(a)):
    return False
  b = t.convert(a)
  return _same(a, b)


def conv_int(ti: int, v: int) -> bool:
  """
  pre: 0 <= ti < NT and -4 <= v <= 4
  post: _
  """
  return _check(TYPES[ti], v)


def conv_bigint(ti: int, k: int) -> bool:
  """
  pre: 0 <= ti < NT and 0 <= k < len(BIG)
  post: _
  """
  return _check(TYPES[ti], BIG[k])


def conv_bool_none(ti: int, v: Optional[bool]) -> bool:
  """
  pre: 0 <= ti < NT
  post: _
  """
  return _check(TYPES[ti], v)


def conv_float(ti: int, num: int, den: int) -> bool:
  """
  pre: 0 <= ti < NT and -6 <= num <= 6 and 1 <= den <= 4
  post: _
  """
  return _check(TYPES[ti], num / den)


def conv_special_float(ti: int, k: int) -> bool:
  """
  pre: 0 <= ti < NT and 0 <= k < len(FLOATS)
  post: _
  """
  return _check(TYPES[ti], FLOATS[k])


def conv_str(ti: int, v: str) -> bool:
  """
  pre: 0 <= ti < NT and len(v) <= SL
  post: _
  """
  return _check(TYPES[ti], v)


def conv_numeric_str(ti: int, k: int) -> bool:
  """
  pre: 0 <= ti < NT and 0 <= k < len(NUMSTR)
  post: _
  """
  return _check(TYPES[ti], NUMSTR[k])


NUMSTR = ["1", "-1", "1.5", "1e3", "0x10", " 2 ", "1_0", "inf", "nan", "-0", "2147483648", "1e400", "١", "true", "False", "no",
          "[1]", '["a"]', "[1, 2", "2020-01-02", "2020-01-02T03:04:05Z", "Table1[1]", "T[[1, 2]]", "", " ", "\x00", "\ud800"]


def conv_list(ti: int, v: List[Union[int, str]]) -> bool:
  """
  pre: 0 <= ti < NT and len(v) <= 2
  pre: all((not isinstance(x, str)) or len(x) <= 1 for x in v)
  pre: all((not isinstance(x, int)) or -2 <= x <= 3 for x in v)
  post: _
  """
  return _check(TYPES[ti], v)


def conv_date(ti: int, k: int) -> bool:
  """
  pre: 0 <= ti < NT and 0 <= k < len(DATES)
  post: _
  """
  return _check(TYPES[ti], DATES[k])


def conv_special(ti: int, k: int) -> bool:
  """
  pre: 0 <= ti < NT and 0 <= k < len(SPECIAL)
  post: _
  """
  return _check(TYPES[ti], SPECIAL[k])


OBLIGATIONS = [
  {"func": "conv_int", "cond_timeout": 200, "desc": "ints -4..4 x every type"},
  {"func": "conv_bigint", "cond_timeout": 100, "desc": "boundary ints (2^31, 2^53, 10^30, ...) x every type"},
  {"func": "conv_bool_none", "cond_timeout": 100, "desc": "True/False/None x every type"},
  {"func": "conv_float", "cond_timeout": 300, "desc": "rationals num/den, |num| <= 6, den <= 4 x every type"},
  {"func": "conv_special_float", "cond_timeout": 100, "desc": "inf, -inf, nan, -0.0, 1e308, ... x every type"},
  {"func": "conv_str", "cond_timeout": 400, "desc": "every str of len <= %d x every type" % SL},
  {"func": "conv_numeric_str", "cond_timeout": 100, "desc": "numeric/date/JSON-looking strings x every type"},
  {"func": "conv_list", "cond_timeout": 400, "desc": "lists of <= 2 small ints / 1-char strs x every type"},
  {"func": "conv_date", "cond_timeout": 100, "desc": "dates and datetimes x every type"},
  {"func": "conv_special", "cond_timeout": 100, "desc": "AltText, errors, bytes, tuples, dicts, sets, RecordList, complex, ... x every type"},
]
BOUNDS = {"types": [t.typename() for t in TYPES], "str": "len <= %d, any characters" % SL, "ints": "[-4, 4] + %d boundary values" % len(BIG),
          "floats": "num/den grid + %d specials" % len(FLOATS), "lists": "len <= 2"}
FILES = ["sandbox/grist/usertypes.py", "sandbox/grist/objtypes.py"]
ASSUMPTIONS = ["the type index is realised (one path family per column type); ints pass through int(float(v)) in Int.do_convert and "
               "are realised there"]
