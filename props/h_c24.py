"""C24 obligations: objtypes.encode_object output is marshal-safe and round-trips through decode_object."""
import os, marshal, enum, datetime, math
from typing import List, Dict, Union, Optional
import objtypes, moment, records

THOROUGH = os.environ.get("VERIF_TIER") == "thorough"
SL = 3 if THOROUGH else 2
S = Union[int, str, None, bool, float]


def _safe(x):
  """exact builtin types only: what the sandbox's marshal transport accepts (iterative: values may be deep)"""
  stack = [x]
  while stack:
    v = stack.pop()
    t = type(v)
    if t in (str, int, float, bool, type(None)):
      continue
    if t in (list, tuple):
      stack.extend(v)
    elif t is dict:
      for k, y in v.items():
        if type(k) is not str:
          return False
        stack.append(y)
    else:
      return False
  return True


def _rt(v):
  e = objtypes.encode_object(v)
  if not _safe(e):
    return False
  b = marshal.dumps(e, 2)
  d = objtypes.decode_object(e)
  e2 = objtypes.encode_object(d)
  if isinstance(e, float) and e != e:
    return isinstance(e2, float) and e2 != e2
  try:
    return e2 == e
  except RecursionError:
    return marshal.dumps(e2, 2) == b


def scalar(v: S) -> bool:
  """
  pre: not isinstance(v, str) or len(v) <= SL
  post: _
  """
  return _rt(v)


def list_of_scalars(v: List[S]) -> bool:
  """
  pre: len(v) <= 2
  pre: all((not isinstance(x, str)) or len(x) <= 1 for x in v)
  post: _
  """
  return _rt(v) and _rt(tuple(v))


def dict_of_scalars(v: Dict[str, S]) -> bool:
  """
  pre: len(v) <= 2
  pre: all(len(k) <= 1 for k in v)
  pre: all((not isinstance(x, str)) or len(x) <= 1 for x in v.values())
  post: _
  """
  return _rt(v)


def nested(v: List[Union[int, None, List[Union[int, str]], Dict[str, int]]]) -> bool:
  """
  pre: len(v) <= 2
  pre: all((not isinstance(x, list)) or (len(x) <= 2 and all((not isinstance(y, str)) or len(y) <= 1 for y in x)) for x in v)
  pre: all((not isinstance(x, dict)) or (len(x) <= 1 and all(len(k) <= 1 for k in x)) for x in v)
  post: _
  """
  return _rt(v) and _rt({"k": v})


def big_ints(k: int) -> bool:
  """
  pre: -3 <= k <= 3
  post: _
  """
  return all(_rt(b + k) for b in (2 ** 31, -2 ** 31, 2 ** 53, 2 ** 63, 10 ** 30, 0))


class StrSub(str):
  pass


class IntSub(int):
  pass


class FloatSub(float):
  pass


class Color(enum.IntEnum):
  RED = 1


class Weird(object):
  def __repr__(self):
    raise ValueError("no repr")


def _specials():
  rec = []
  rec.append(rec)
  deep = []
  cur = deep
  for _ in range(3000):
    nxt = []
    cur.append(nxt)
    cur = nxt
  ny = moment.tzinfo("America/New_York")
  D = datetime
  return [
    StrSub("a"), IntSub(5), FloatSub(1.5), Color.RED, {StrSub("a"): 1}, {"a": StrSub("b")}, [StrSub("x"), IntSub(1)], {1: 2}, {None: 1},
    {("a",): 1}, {1, 2}, frozenset([1]), b"ab", b"\xff\xfe", bytearray(b"a"), 1 + 2j, rec, deep, Weird(), object(), len, ...,
    float("nan"), float("inf"), -0.0, 2 ** 100,
    D.date(1970, 1, 1), D.date(9999, 12, 31), D.date(1, 1, 1), D.datetime(2020, 3, 8, 2, 30), D.datetime(2020, 11, 1, 1, 30, tzinfo=ny),
    D.datetime(1969, 12, 31, 23, 59, 59, 999999), D.datetime(9999, 12, 31, 23, 59, 59, 999999), D.datetime(9999, 12, 31, 23, 59, 59, tzinfo=ny), D.datetime(2024, 2, 29, 12, 0, tzinfo=moment.TZ_UTC), D.datetime(1, 1, 1), D.time(1, 2),
    D.timedelta(1),
    objtypes.RaisedException(ValueError("boom")), objtypes.RaisedException(ValueError("b"), user_input=StrSub("u")),
    objtypes.RaisedException(ValueError("b"), user_input={1: 2}), objtypes.RaisedException(None), objtypes.RaisedException(KeyError(StrSub("k")), include_details=False),
    objtypes.AltText("x", "Int"), objtypes.UnmarshallableValue("u"), objtypes.RecordStub("T", 1), objtypes.RecordSetStub("T", [1, 2]),
    objtypes.RecordList([1, 2]), [objtypes.AltText("x")], {"d": D.date(2020, 1, 1)}, [[[]]], "\ud800", "\x00", "é",
  ]


SPECIALS = _specials()


def special(k: int) -> bool:
  """
  pre: 0 <= k < len(SPECIALS)
  post: _
  """
  return _rt(SPECIALS[k])


OBLIGATIONS = [
  {"func": "scalar", "cond_timeout": 200, "desc": "int (unbounded) | float | str len <= %d | bool | None" % SL},
  {"func": "list_of_scalars", "cond_timeout": 300, "desc": "lists/tuples of <= 2 scalars"},
  {"func": "dict_of_scalars", "cond_timeout": 300, "desc": "dicts with <= 2 one-char str keys"},
  {"func": "nested", "cond_timeout": 300, "desc": "lists of ints / None / lists / dicts, also inside a dict"},
  {"func": "big_ints", "cond_timeout": 100, "desc": "ints around 2^31, 2^53, 2^63, 10^30"},
  {"func": "special", "cond_timeout": 200, "desc": "%d special values: subclasses of str/int/float, IntEnum, odd dict keys, sets, bytes, recursive and "
                                               "3000-deep lists, dates, naive and tz-aware datetimes incl. year 9999 and year 1, errors with user input, "
                                               "records stand-ins, surrogates" % len(SPECIALS)},
]
BOUNDS = {"strings": "len <= %d" % SL, "containers": "len <= 2, depth <= 2 (+ one 3000-deep list)", "specials": len(SPECIALS)}
FILES = ["sandbox/grist/objtypes.py", "sandbox/grist/actions.py"]
ASSUMPTIONS = ["marshal-safety = the encoded form consists of exact builtin str/int/float/bool/None/list/tuple/dict-with-str-keys and "
               "marshal.dumps(encoded, 2) succeeds (the transport in sandbox.py)"]
