"""C24 obligations: objtypes.encode_object output is marshal-safe and round-trips through decode_object."""
import os, marshal, enum, datetime, math
from typing import List, Dict, Union, Optional
import objtypes, moment, records
try:
  if os.environ.get("VERIF_NATIVE"):
    raise ImportError
  from crosshair.core import deep_realize
except ImportError:
  deep_realize = lambda x: x

THOROUGH = os.environ.get("VERIF_TIER") == "thorough"
SL = 8 if THOROUGH else 5
S = Union[int, str, None, bool, float]


def _safe(x):
  """exact builtin types only: what the sandbox's marshal transport accepts (iterative: values may be deep)"""
  stack = [x]
  while stack:
    v = stack.pop()
    t = type(v)
    if t in (str, int, float, bool, type(None)):
      continue
    if t in (list, tuple):
      stack.extend(v)
    elif t is dict:
      for k, y in v.items():
        if type(k) is not str:
          return False
        stack.append(y)
    else:
      return False
  return True


NATIVE = bool(os.environ.get("VERIF_NATIVE"))


def _rt(v):
  e = objtypes.encode_object(v)
  if not _safe(e):
    return False
  if NATIVE:
    # marshal is a C function: it is exercised on concrete values only (enumerated obligations, replays); in the
    # symbolic runs marshal-safety is decided by _safe, the exact-builtin-types predicate marshal implements
    b = marshal.dumps(e, 2)
  d = objtypes.decode_object(e)
  e2 = objtypes.encode_object(d)
  try:
    return _deq(e2, e)
  except RecursionError:
    return marshal.dumps(e2, 2) == b


def _deq(a, b):
  """equality of encoded forms in which NaN equals NaN"""
  if isinstance(a, float) and isinstance(b, float):
    return a == b or (a != a and b != b)
  if isinstance(a, (list, tuple)) and isinstance(b, (list, tuple)):
    return type(a) == type(b) and len(a) == len(b) and all(_deq(x, y) for x, y in zip(a, b))
  if isinstance(a, dict) and isinstance(b, dict):
    return len(a) == len(b) and all(k in b and _deq(a[k], b[k]) for k in a)
  return type(a) == type(b) and a == b


def scalar_int(v: int) -> bool:
  """
  post: _
  """
  return _rt(v) and _rt([v]) and _rt({"k": v})


def scalar_int_short(v: int) -> bool:
  """
  pre: -(1 << 31) - 2 <= v <= (1 << 31) + 2
  post: _
  """
  return _rt(v)


def scalar_int_long(v: int) -> bool:
  """
  pre: v >= (1 << 31) or v < -(1 << 31)
  post: _
  """
  return _rt(v)


def scalar_float(v: float) -> bool:
  """
  post: _
  """
  return _rt(v) and _rt([v])


def scalar_str(v: str) -> bool:
  """
  pre: len(v) <= SL
  post: _
  """
  return _rt(v) and _rt([v])


def str_key(v: str) -> bool:
  """
  pre: len(v) <= 1
  post: _
  """
  return _rt({v: 1})


def scalar_bool_none(v: Optional[bool]) -> bool:
  """
  post: _
  """
  return _rt(v) and _rt((v,))


def list_of_ints(v: List[Optional[int]]) -> bool:
  """
  pre: len(v) <= 3
  pre: all(x is None or -(1 << 31) - 2 <= x <= (1 << 31) + 2 for x in v)
  post: _
  """
  return _rt(v) and _rt(tuple(v))


def list_of_strs(v: List[str]) -> bool:
  """
  pre: len(v) <= 2
  pre: all(len(x) <= 1 for x in v)
  post: _
  """
  return _rt(v) and _rt(tuple(v))


def dict_of_ints(v: Dict[str, int]) -> bool:
  """
  pre: len(v) <= 2
  pre: all(len(k) <= 1 for k in v)
  pre: all(-(1 << 31) - 2 <= x <= (1 << 31) + 2 for x in v.values())
  post: _
  """
  return _rt(v)


def list_of_scalars(v: List[S]) -> bool:
  """
  pre: len(v) <= 2
  pre: all((not isinstance(x, str)) or len(x) <= 1 for x in v)
  post: _
  """
  return _rt(v) and _rt(tuple(v))


def dict_of_scalars(v: Dict[str, S]) -> bool:
  """
  pre: len(v) <= 2
  pre: all(len(k) <= 1 for k in v)
  pre: all((not isinstance(x, str)) or len(x) <= 1 for x in v.values())
  post: _
  """
  return _rt(v)


def nested(v: List[Union[int, None, List[Union[int, str]], Dict[str, int]]]) -> bool:
  """
  pre: len(v) <= 2
  pre: all((not isinstance(x, list)) or (len(x) <= 2 and all((not isinstance(y, str)) or len(y) <= 1 for y in x)) for x in v)
  pre: all((not isinstance(x, dict)) or (len(x) <= 1 and all(len(k) <= 1 for k in x)) for x in v)
  post: _
  """
  return _rt(v) and _rt({"k": v})


BIG = (2 ** 31, -2 ** 31, 2 ** 53, 2 ** 63, 10 ** 30, 0)


def big_ints(b: int, k: int) -> bool:
  return _rt(BIG[b] + k) and _rt([BIG[b] + k]) and _rt({"k": BIG[b] + k})


class StrSub(str):
  pass


class IntSub(int):
  pass


class FloatSub(float):
  pass


class Color(enum.IntEnum):
  RED = 1


class Weird(object):
  def __repr__(self):
    raise ValueError("no repr")


def _specials():
  rec = []
  rec.append(rec)
  deep = []
  cur = deep
  for _ in range(3000):
    nxt = []
    cur.append(nxt)
    cur = nxt
  ny = moment.tzinfo("America/New_York")
  D = datetime
  return [
    StrSub("a"), IntSub(5), FloatSub(1.5), Color.RED, {StrSub("a"): 1}, {"a": StrSub("b")}, [StrSub("x"), IntSub(1)], {1: 2}, {None: 1},
    {("a",): 1}, {1, 2}, frozenset([1]), b"ab", b"\xff\xfe", bytearray(b"a"), 1 + 2j, rec, deep, Weird(), object(), len, ...,
    float("nan"), float("inf"), -0.0, 2 ** 100,
    D.date(1970, 1, 1), D.date(9999, 12, 31), D.date(1, 1, 1), D.datetime(2020, 3, 8, 2, 30), D.datetime(2020, 11, 1, 1, 30, tzinfo=ny),
    D.datetime(1969, 12, 31, 23, 59, 59, 999999), D.datetime(9999, 12, 31, 23, 59, 59, 999999), D.datetime(9999, 12, 31, 23, 59, 59, tzinfo=ny), D.datetime(2024, 2, 29, 12, 0, tzinfo=moment.TZ_UTC), D.datetime(1, 1, 1), D.time(1, 2),
    D.timedelta(1),
    objtypes.RaisedException(ValueError("boom")), objtypes.RaisedException(ValueError("b"), user_input=StrSub("u")),
    objtypes.RaisedException(ValueError("b"), user_input={1: 2}), objtypes.RaisedException(None), objtypes.RaisedException(KeyError(StrSub("k")), include_details=False),
    objtypes.AltText("x", "Int"), objtypes.UnmarshallableValue("u"), objtypes.RecordStub("T", 1), objtypes.RecordSetStub("T", [1, 2]),
    objtypes.RecordList([1, 2]), [objtypes.AltText("x")], {"d": D.date(2020, 1, 1)}, [[[]]], "\ud800", "\x00", "é",
  ]


SPECIALS = _specials()


def special(k):
  return _rt(SPECIALS[k])


def special_in_container(k, c):
  v = SPECIALS[k]
  return _rt([v, 1] if c == 0 else (v,) if c == 1 else {"k": v} if c == 2 else [[v]])


def _name(v):
  import re
  try:
    r = repr(v)
  except Exception:
    r = type(v).__name__
  return re.sub(r"[^0-9A-Za-z]+", "_", r)[:80]


def classify(func, args, kw):
  """names the value class of a counterexample (matched by known_findings.json)"""
  k = kw.get("k", args[0] if args else None)
  if func in ("special", "special_in_container"):
    return func + ":" + _name(SPECIALS[k])
  return None


# ---------------------------------------------------------------------------------------------------------------
# engine level: values that formulas actually return (records, record sets read back from reference-list cells, lookups,
# containers of them, errors, odd Python objects) travel through the reply of apply_user_actions and fetch_table exactly
# as sandbox/grist/main.py builds them; every reply must be accepted by marshal and every cell must round-trip

EFORMULAS = [
  "$M", "$L", "$R", "People.lookupRecords(Name='a')", "People.lookupOne(Name='a')", "[$R, $M]", "{'k': $M}", "$M.Name", "list($M)", "People.all",
  "rec", "table", "People", "$M.find", "iter($M)", "10**40", "float('nan')", "{1: 2}", "{1, 2}", "b'ab'", "1+2j", "lambda: 1",
  "datetime.datetime(9999, 12, 31)", "datetime.date(2020, 1, 1)", "$Nope.d", "1/0", "type('S', (str,), {})('x')", "type('I', (int,), {})(5)",
  "{type('S', (str,), {})('k'): 1}", "$M[0:1]", "(1, [2, (3,)])", "range(3)", "x = []\nx.append(x)\nx", "str", "NotImplemented", "...",
  "$L.R", "$R.L", "$R.M", "[r.M for r in People.all]", "$M.L", "People.lookupRecords(Name='a', order_by='-Name')", "$M2", "$M2.Name", "sorted($L, key=lambda r: -r.id)",
  "PREVIOUS(rec, order_by='K')", "RecordSet" , "$K or $M", "($M, $L)", "{'a': {'b': [$R]}}", "AltText('x')", "float('inf')", "-0.0", "2**31", "-2**31 - 1", "True",
]


def _edoc():
  import logging
  logging.disable(logging.CRITICAL)
  import engine, useractions
  e = engine.Engine()
  e.load_empty()
  ap = lambda *uas: e.apply_user_actions([useractions.from_repr(list(u)) for u in uas])
  ap(["AddTable", "People", [{"id": "Name", "type": "Text", "isFormula": False}, {"id": "L", "type": "RefList:People", "isFormula": False},
                             {"id": "R", "type": "Ref:People", "isFormula": False},
                             {"id": "M", "type": "RefList:People", "isFormula": True, "formula": "People.lookupRecords(Name='a')"}]])
  ap(["AddTable", "T", [{"id": "K", "type": "Int", "isFormula": False}, {"id": "R", "type": "Ref:People", "isFormula": False},
                        {"id": "L", "type": "RefList:People", "isFormula": False},
                        # reference lists stored from a RecordSet: a formula column and a trigger-formula (data) column
                        {"id": "M", "type": "RefList:People", "isFormula": True, "formula": "People.lookupRecords(Name='a')"},
                        {"id": "M2", "type": "RefList:People", "isFormula": False, "formula": "People.lookupRecords(Name='b')", "recalcWhen": 2}]])
  ap(["BulkAddRecord", "People", [None] * 3, {"Name": ["a", "b", "a"], "L": [["L", 2], None, ["L", 1, 3]], "R": [2, 0, 1]}])
  ap(["BulkAddRecord", "T", [None] * 2, {"K": [1, 0], "R": [1, 0], "L": [["L", 3, 1], None]}])
  return e, ap


def _reply_problems(e, ag):
  import actions
  reply = dict(rowCount=e.count_rows(), **e.acl_split(ag).to_json_obj())
  out = []
  for name, obj in [("apply_user_actions reply", reply)] + [("fetch_table(%s)" % t, actions.get_action_repr(e.fetch_table(t))) for t in ("T", "People")]:
    try:
      marshal.dumps(obj, 2)
    except Exception as ex:
      out.append("%s is rejected by marshal: %s" % (name, ex))
    if not _safe(_plain(obj)):
      out.append("%s contains a value that is not of an exact builtin type" % name)
  return out


def _plain(obj):
  """reply structures use int keys / bools at the top level; the check is about the cell values: normalise dict keys"""
  if type(obj) is dict:
    return {str(k): _plain(v) for k, v in obj.items()}
  if type(obj) in (list, tuple):
    return [_plain(x) for x in obj]
  return obj


def engine_value(fi, where):
  e, ap = _edoc()
  f = EFORMULAS[fi]
  if where == 0:
    ag = ap(["AddColumn", "T", "V", {"type": "Any", "isFormula": True, "formula": f}])
  elif where == 1:
    ag = ap(["AddColumn", "T", "V", {"type": "Any", "isFormula": False, "formula": f, "recalcWhen": 2}], ["UpdateRecord", "T", 1, {"K": 5}])
  else:
    ag = ap(["AddColumn", "T", "V", {"type": "Text", "isFormula": True, "formula": f}])
  probs = _reply_problems(e, ag)
  if probs:
    raise AssertionError("; ".join(probs)[:400])
  ag2 = ap(["UpdateRecord", "People", 2, {"Name": "a"}])       # changes what the lookups return
  probs = _reply_problems(e, ag2)
  if probs:
    raise AssertionError("after a data edit: " + "; ".join(probs)[:400])
  for v in e.fetch_table("T").columns["V"]:
    if not _rt(v):
      raise AssertionError("cell value %r of formula %r does not round-trip" % (objtypes.encode_object(v), f))
  return True


OBLIGATIONS = [
  {"func": "scalar_int_short", "cond_timeout": 60, "desc": "every int in [-2^31-2, 2^31+2] (both sides of the 32-bit cut)"},
  {"func": "scalar_int_long", "cond_timeout": 30, "desc": "every int outside 32 bits (['U', str(v)] form; str(int) is hard for z3: counterexample search only)"},
  {"func": "scalar_int", "cond_timeout": 30, "desc": "unbounded int bare, in a list, as a dict value (counterexample search only)"},
  {"func": "scalar_float", "cond_timeout": 30, "desc": "float incl. nan/inf (real-arithmetic model: CrossHair never reports 'confirmed' for floats)"},
  {"func": "scalar_str", "cond_timeout": 60, "desc": "every str of len <= %d, bare and in a list" % SL},
  {"func": "scalar_bool_none", "cond_timeout": 30, "desc": "True / False / None"},
  {"func": "list_of_ints", "cond_timeout": 100, "desc": "lists and tuples of <= 3 32-bit-ish ints or None"},
  {"func": "list_of_strs", "cond_timeout": 60, "desc": "lists and tuples of <= 2 one-char strs"},
  {"func": "dict_of_ints", "cond_timeout": 60, "desc": "dicts with <= 2 one-char str keys and int values"},
  {"func": "list_of_scalars", "cond_timeout": 100, "desc": "lists/tuples of <= 2 scalars of mixed type"},
  {"func": "dict_of_scalars", "cond_timeout": 100, "desc": "dicts with <= 2 one-char str keys and mixed scalar values"},
  {"func": "nested", "cond_timeout": 100, "desc": "lists of ints / None / lists / dicts, also inside a dict"},
]
_SPECIAL_DESC = ("%d special values: subclasses of str/int/float, IntEnum, odd dict keys, sets, bytes, recursive and 3000-deep lists, dates, naive "
                 "and tz-aware datetimes incl. year 9999 and year 1, errors with user input, records stand-ins, surrogates" % len(SPECIALS))
ENUM = [
  {"func": "special", "domains": {"k": list(range(len(SPECIALS)))}, "shard_by": None, "max_s": 200, "desc": _SPECIAL_DESC},
  {"func": "special_in_container", "domains": {"k": list(range(len(SPECIALS))), "c": [0, 1, 2, 3]}, "shard_by": "c", "max_s": 200,
   "desc": "each special value inside a list, a tuple, a dict value and a nested list"},
  {"func": "engine_value", "domains": {"fi": list(range(len(EFORMULAS))), "where": [0, 1, 2]}, "shard_by": "where", "max_s": 300,
   "desc": "engine level: %d formulas (records, record sets read back from reference-list cells, lookups, containers, odd objects) in an Any formula "
           "column, a trigger-formula data column and a Text formula column: replies built as in main.py are marshalled; cells round-trip" % len(EFORMULAS)},
  {"func": "big_ints", "domains": {"b": list(range(len(BIG))), "k": list(range(-3, 4))}, "shard_by": None, "max_s": 100,
   "desc": "ints within 3 of 2^31, -2^31, 2^53, 2^63, 10^30, 0 (bare, in a list, in a dict)"},
]
BOUNDS = {"strings": "len <= %d" % SL, "containers": "len <= 2, depth <= 2 (+ one 3000-deep list)", "specials": len(SPECIALS)}
FILES = ["sandbox/grist/objtypes.py", "sandbox/grist/actions.py", "sandbox/grist/records.py", "sandbox/grist/engine.py", "sandbox/grist/main.py"]
ASSUMPTIONS = ["marshal-safety = the encoded form consists of exact builtin str/int/float/bool/None/list/tuple/dict-with-str-keys and "
               "marshal.dumps(encoded, 2) succeeds (the transport in sandbox.py)",
               "catalogue values (specials, boundary ints) are concrete objects no symbolic type describes: they are enumerated (z3 AllSAT over "
               "the index holes) and run natively"]
