"""C25 obligations (E1 + a json.loads stub): the JSON-reading migrations are total for every JSON value
their Text cells may hold.

The migrations that parse cell text (found by scanning migrations.py for json.loads / safe_parse) run on a
version-(k-1) document built by the repository's own earlier migrations; `migrations.json.loads` is replaced
by a stub that returns a *symbolic* JSON value (contract: for every JSON value there is a text that parses
to it; or raises ValueError for text that is not JSON).  A counterexample is replayed with json.dumps(value)
as the real cell text and the real json module (VERIF_NATIVE=1)."""
import os, re, json, inspect
from typing import Union, List, Dict, Optional
import migrations, table_data_set, actions, schema
import test_migrations
try:
  from crosshair.tracers import NoTracing
except ImportError:           # plain replay
  import contextlib
  NoTracing = contextlib.nullcontext

NATIVE = os.environ.get("VERIF_NATIVE") == "1"
S = Union[int, str, None, bool, float]
J = Union[S, Dict[str, Union[S, List[int]]], List[Union[int, str, None, List[int]]]]

# per migration: the rows that make it reach its JSON parsing, {CELL} marks the parsed Text cell
SCEN = {
  10: [("_grist_Tables", 1, {"tableId": "T"}), ("_grist_Tables_column", 1, {"parentId": 1, "colId": "A", "type": "Text"}),
       ("_grist_Tables_column", 2, {"parentId": 1, "colId": "R", "type": "Ref:T", "widgetOptions": "{CELL}"})],
  15: [("_grist_Tables", 1, {"tableId": "T"}), ("_grist_Tables_column", 1, {"parentId": 1, "colId": "A", "type": "Text"}),
       ("_grist_Views_section", 1, {"tableRef": 1, "filterSpec": "{CELL}"}),
       ("_grist_Views_section_field", 1, {"parentId": 1, "colRef": 1})],
  16: [("_grist_Tables", 1, {"tableId": "T"}), ("_grist_Tables_column", 1, {"parentId": 1, "colId": "A", "type": "Text"}),
       ("_grist_Tables_column", 2, {"parentId": 1, "colId": "R", "type": "Ref:T", "widgetOptions": "{CELL}"}),
       ("_grist_Views_section_field", 1, {"parentId": 0, "colRef": 2, "widgetOptions": "{CELL}"})],
  29: [("_grist_Tables", 1, {"tableId": "T"}), ("_grist_Tables_column", 1, {"parentId": 1, "colId": "A", "type": "Text", "rules": "{CELL}",
                                                                              "widgetOptions": "{CELL}"})],
  34: [("_grist_Tables", 1, {"tableId": "T"}), ("_grist_Views_section", 1, {"tableRef": 1, "options": "{CELL}"}),
       ("_grist_Filters", 1, {"viewSectionRef": 1, "colRef": 0, "filter": ""})],
  35: [("_grist_ACLRules", 5, {"resource": 1, "aclFormula": "x", "aclFormulaParsed": "{CELL}"})],
  45: [("_grist_Cells", 1, {"tableRef": 0, "colRef": 0, "rowId": 1, "type": 1, "content": "{CELL}"})],
}
KEYS = {10: ["visibleCol", "x"], 15: ["1", "x"], 16: ["visibleCol", "x"], 29: ["x"], 34: ["filterBar", "x"], 35: ["x"],
        45: ["timeCreated", "timeUpdated", "resolved", "x"]}


def json_migrations():
  """versions of the migrations in the current tree that parse JSON (AST-free scan of their source)"""
  out = []
  for v, f in sorted(migrations.all_migrations.items()):
    src = inspect.getsource(f)
    if "json.loads" in src or "safe_parse" in src:
      out.append(v)
  return out


JSON_MIGS = json_migrations()


def doc_at(v):
  td = table_data_set.TableDataSet()
  td.apply_doc_actions(test_migrations.schema_version0())
  for k in range(1, v + 1):
    f = migrations.all_migrations.get(k)
    if f:
      f(td)
  return td


class _Stub(object):
  def __init__(self, val, bad):
    self.val, self.bad, self.calls = val, bad, 0

  def loads(self, text, *a, **k):
    self.calls += 1
    if text in ("", None):
      return json.loads(text)           # empty cells behave as in reality (ValueError / TypeError)
    if self.bad:
      raise ValueError("bad json")
    return self.val
  dumps = staticmethod(json.dumps)
  JSONDecodeError = json.JSONDecodeError


def _run(k, val, bad):
  with NoTracing():
    td = doc_at(k - 1)
    cell = ("{not json" if bad else json.dumps(val)) if NATIVE else "X"
    td.apply_doc_action(actions.AddTable("T", [{"id": "A", "type": "Text"}, {"id": "R", "type": "Ref:T"}]))
    for table, rid, rec in SCEN[k]:
      cols = td.all_tables[table].columns
      rec = {c: (cell if v == "{CELL}" else v) for c, v in rec.items() if c in cols}
      td.apply_doc_action(actions.AddRecord(table, rid, rec))
  if NATIVE:
    migrations.all_migrations[k](td)
    return True
  stub = _Stub(val, bad)
  real = migrations.json
  migrations.json = stub
  try:
    migrations.all_migrations[k](td)
  finally:
    migrations.json = real
  return stub.calls > 0          # the parsing was reached (otherwise the scenario is wrong: vacuous)


def _keys_ok(k, val):
  return (not isinstance(val, dict)) or all(key in KEYS[k] for key in val)


def mig10(val: J, bad: bool) -> bool:
  """
  pre: _keys_ok(10, val)
  post: _
  """
  return _run(10, val, bad)


def mig15(val: J, bad: bool) -> bool:
  """
  pre: _keys_ok(15, val)
  post: _
  """
  return _run(15, val, bad)


def mig16(val: J, bad: bool) -> bool:
  """
  pre: _keys_ok(16, val)
  post: _
  """
  return _run(16, val, bad)


def mig29(val: J, bad: bool) -> bool:
  """
  pre: _keys_ok(29, val)
  post: _
  """
  return _run(29, val, bad)


def mig34(val: J, bad: bool) -> bool:
  """
  pre: _keys_ok(34, val)
  post: _
  """
  return _run(34, val, bad)


def mig35(val: J, bad: bool) -> bool:
  """
  pre: _keys_ok(35, val)
  post: _
  """
  return _run(35, val, bad)


def mig45(val: J, bad: bool) -> bool:
  """
  pre: _keys_ok(45, val)
  post: _
  """
  return _run(45, val, bad)


def mig_case(k, val, bad):
  return _run(k, val, bad)


def _catalogue(k):
  keys = KEYS[k]
  scal = [0, 1, -1, 1.5, 1e400, "", "s", None, True, False]
  out = list(scal) + [[], [1], ["a"], [None], [[1]], [1, "a"], ["Comment"], ["Comment", 1], ["Comment", 1, "memo"], ["Comment", 1, 2, 3], {}]
  for key in keys:
    for v in scal + [[1], ["a"], {}]:
      out.append({key: v})
  if len(keys) > 1:
    out.append({keys[0]: 1, keys[1]: "a"})
    out.append({keys[0]: "A", keys[1]: [1]})
  return out


THOROUGH = os.environ.get("VERIF_TIER") == "thorough"
OBLIGATIONS = ([{"func": "mig%d" % k, "cond_timeout": 150, "desc": "migration %d is total for every JSON value of its parsed cell (symbolic value)" % k}
                for k in sorted(SCEN) if k in JSON_MIGS] if THOROUGH else [])
ENUM = [{"func": "mig_case", "domains": {"k": [k], "val": _catalogue(k), "bad": [False, True]}, "max_s": 200,
         "desc": "migration %d on a catalogue of %d JSON shapes, through the real json module" % (k, len(_catalogue(k)))}
        for k in sorted(SCEN) if k in JSON_MIGS]
UNCOVERED = [k for k in JSON_MIGS if k not in SCEN]
BOUNDS = {"json value": "scalar | dict with <= keys from the migration's own key set + one fresh key, values scalar or list[int] | list of scalars / int lists",
          "json-reading migrations in the tree": JSON_MIGS, "without a scenario (not covered)": UNCOVERED}
FILES = ["sandbox/grist/migrations.py", "sandbox/grist/table_data_set.py", "sandbox/grist/schema.py"]
ASSUMPTIONS = ["stub: migrations.json.loads returns an arbitrary JSON value for non-empty text, or raises ValueError; "
               "every counterexample is replayed with json.dumps(value) as the real cell text and the real json module"]


def _structural(v):
  """create_migrations on a version-v document (with one user table holding data): returns None or msg"""
  td = doc_at(v)
  # a user table with data, registered in the metadata the way version v knows it
  td.apply_doc_action(actions.AddTable("T", [{"id": "A", "type": "Text", "isFormula": False, "formula": ""},
                                             {"id": "R", "type": "Ref:T", "isFormula": False, "formula": ""}]))
  td.apply_doc_action(actions.BulkAddRecord("T", [1, 2], {"A": ["x", '{"timeCreated": "a"}'], "R": [2, 0]}))
  if "_grist_Tables" in td.all_tables:
    td.apply_doc_action(actions.AddRecord("_grist_Tables", 1, {"tableId": "T"}))
    cols = td.all_tables["_grist_Tables_column"].columns
    for i, (cid, ty) in enumerate((("A", "Text"), ("R", "Ref:T"))):
      rec = {"parentId": 1, "colId": cid, "type": ty}
      td.apply_doc_action(actions.AddRecord("_grist_Tables_column", i + 1, {k: x for k, x in rec.items() if k in cols}))
  if "_grist_DocInfo" in td.all_tables:
    if td.all_tables["_grist_DocInfo"].row_ids:
      td.apply_doc_action(actions.UpdateRecord("_grist_DocInfo", td.all_tables["_grist_DocInfo"].row_ids[0], {"schemaVersion": v}))
    else:
      td.apply_doc_action(actions.AddRecord("_grist_DocInfo", 1, {"schemaVersion": v}))
  before_user = (list(td.all_tables["T"].row_ids), {c: list(x) for c, x in td.all_tables["T"].columns.items()})
  try:
    acts = migrations.create_migrations(td.all_tables)
  except Exception as e:
    return "create_migrations raised %s: %s" % (type(e).__name__, str(e)[:200])
  if v == schema.SCHEMA_VERSION:
    reprs = [actions.get_action_repr(a) for a in acts]
    if reprs != [["UpdateRecord", "_grist_DocInfo", 1, {"schemaVersion": schema.SCHEMA_VERSION}]]:
      return "migrating a current document emits %s" % (reprs[:3],)
  try:
    td.apply_doc_actions(acts)
  except Exception as e:
    return "applying the migration actions raised %s: %s" % (type(e).__name__, str(e)[:200])
  migrated = {t: cols for t, cols in td.get_schema().items() if t.startswith("_grist_")}
  current = {a.table_id: {c['id']: c for c in a.columns} for a in schema.schema_create_actions()}
  if migrated != current:
    for t in sorted(set(migrated) | set(current)):
      if migrated.get(t) != current.get(t):
        a, b = migrated.get(t) or {}, current.get(t) or {}
        diff = [c for c in sorted(set(a) | set(b)) if a.get(c) != b.get(c)]
        return "schema after migration differs from the current schema in %s: columns %s" % (t, diff[:5])
  ver = td.all_tables["_grist_DocInfo"].columns["schemaVersion"]
  if list(ver) != [schema.SCHEMA_VERSION]:
    return "schemaVersion after migration is %s" % (list(ver),)
  after_user = (list(td.all_tables["T"].row_ids), {c: list(x) for c, x in td.all_tables["T"].columns.items()})
  if after_user != before_user:
    return "user table cells changed: %s -> %s" % (before_user, after_user)
  return None


def extra_checks(tier, seed, ev):
  """start versions 0..SCHEMA_VERSION enumerated (concrete runs of the real code)"""
  viol, rows = [], []
  for v in range(0, schema.SCHEMA_VERSION + 1):
    msg = _structural(v)
    rows.append({"start_version": v, "ok": msg is None})
    if msg:
      viol.append({"sig": {"pid": "C25", "start_version": v, "msg": msg[:200]}, "msg": "from version %d: %s" % (v, msg),
                   "witness": {"engine": "structural", "start_version": v}})
  ev.cov["start_versions_checked"] = len(rows)
  ev.cov["start_versions_ok"] = sum(1 for r in rows if r["ok"])
  return viol, []


def replay_extra(pid, w):
  msg = _structural(w["start_version"])
  if msg:
    print("REPRODUCED property=C25 from version %d: %s" % (w["start_version"], msg))
    return 1
  print("not reproduced")
  return 0
