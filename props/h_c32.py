"""C32 obligations (E1 + a csv.reader stub): the CSV importer keeps every cell.

Stub: import_csv.csv.reader returns the symbolic grid itself (contract: the reader yields the rows that were
written with the explicit delimiter and quote character; rows may have different widths).  A counterexample is
replayed through the real csv module: the grid is written to a temporary file (every cell quoted) and parsed
with import_csv.parse_file (VERIF_NATIVE=1)."""
import os, io, csv, tempfile
from typing import List
from imports import import_csv
try:
  from crosshair.tracers import NoTracing
  from crosshair.core import realize
except ImportError:
  import contextlib
  NoTracing = contextlib.nullcontext
  realize = lambda x: x

NATIVE = os.environ.get("VERIF_NATIVE") == "1"
THOROUGH = os.environ.get("VERIF_TIER") == "thorough"
ALPHA = "a1 -é"


class FakeReader(object):
  def __init__(self, rows):
    self.rows = rows
    self.dialect = csv.excel

  def __iter__(self):
    return iter(self.rows)


def _parse(rows, hdr):
  opts = {"delimiter": ",", "quotechar": '"', "include_col_names_as_headers": hdr}
  if NATIVE:
    fd, path = tempfile.mkstemp(suffix=".csv")
    with os.fdopen(fd, "w", newline="", encoding="utf8") as f:
      csv.writer(f, delimiter=",", quotechar='"', quoting=csv.QUOTE_ALL).writerows(rows)
    try:
      return import_csv.parse_file(path, opts)
    finally:
      os.remove(path)
  real = import_csv.csv
  fake = type(csv)('fakecsv')
  fake.reader = lambda f, **kw: FakeReader(rows)
  fake.Sniffer, fake.Error, fake.excel = csv.Sniffer, csv.Error, csv.excel
  import_csv.csv = fake
  try:
    return import_csv._parse_open_file(io.StringIO("a,b\n"), opts)
  finally:
    import_csv.csv = real


def _blank(c):
  return c.strip() == ""


def _check(rows, hdr):
  """columns of equal length, one entry per data row, every non-empty cell at its row and column.
  Whitespace-only cells count as empty.  The data rows are a suffix of the grid; what precedes them may only
  be blank rows and, when headers are asked for, one header row whose cells become the column ids."""
  opts, tables = _parse(rows, hdr)
  if not any(not _blank(c) for r in rows for c in r):
    return True
  if not tables:
    return False
  data = tables[0]["table_data"]
  ids = [m["id"] for m in tables[0]["column_metadata"]]
  if len({len(c) for c in data}) != 1 or len(ids) != len(data):
    return False
  nrows = len(data[0])
  offset = len(rows) - nrows
  if offset < 0:
    return False
  pre, body = rows[:offset], rows[offset:]
  pre_rows = [r for r in pre if any(not _blank(c) for c in r)]
  if len(pre_rows) > (1 if hdr else 0):
    return False                         # a row with content was dropped
  header = pre_rows[0] if pre_rows else []
  width = max(len(r) for r in rows)
  # a column with a non-blank cell or header must be kept; a column whose only content is whitespace may be
  # kept or dropped (the importer keeps it unless it lies beyond the header width)
  must = [j for j in range(width)
          if any(j < len(r) and not _blank(r[j]) for r in body) or (j < len(header) and not _blank(header[j]))]
  may = [j for j in range(width) if j not in must and any(j < len(r) and r[j] != "" for r in body)]
  import itertools
  for n_opt in range(len(may) + 1):
    for extra in itertools.combinations(may, n_opt):
      kept = sorted(must + list(extra))
      if len(kept) == len(data) and _cells_match(kept, header, ids, body, data):
        return True
  return False


def _cells_match(kept, header, ids, body, data):
  for dj, j in enumerate(kept):
    if j < len(header) and not _blank(header[j]) and str(ids[dj]).strip() != header[j].strip():
      return False
    for i, r in enumerate(body):
      want = r[j] if j < len(r) else ""
      got = data[dj][i]
      if not _blank(want) and str(got).strip() != want.strip() and not _same_number(got, want):
        return False
  return True


def _same_number(got, want):
  try:
    return float(got) == float(want) and want.strip() == want
  except (TypeError, ValueError):
    return False


def _alpha(s):
  return all(c in ALPHA for c in s)


def ragged(k: int, w1: int, w2: int, w3: int, hdr: bool, a: str, b: str, c: str) -> bool:
  """
  pre: 0 <= k <= 3 and 1 <= w1 <= 3 and 1 <= w2 <= 3 and 1 <= w3 <= 3
  pre: len(a) <= 1 and len(b) <= 1 and len(c) <= 1 and _alpha(a + b + c)
  post: _
  """
  k, w1, w2, w3, hdr = realize(k), realize(w1), realize(w2), realize(w3), realize(hdr)
  rows = [["f%d_%d" % (i, j) for j in range(w1)] for i in range(k)]
  rows.append([a, b, c][:w2])
  rows.append((["x", c, a])[:w3])
  return _check(rows, hdr)


def sample_boundary(k: int, w1: int, w2: int, hdr: bool) -> bool:
  """
  pre: 98 <= k <= 102 and 1 <= w1 <= 3 and 1 <= w2 <= 3
  post: _
  """
  k, w1, w2, hdr = realize(k), realize(w1), realize(w2), realize(hdr)
  rows = [["f%d_%d" % (i, j) for j in range(w1)] for i in range(k)] + [["z%d" % j for j in range(w2)]]
  return _check(rows, hdr)


def rectangular(n: int, w: int, hdr: bool, cells: List[str]) -> bool:
  """
  pre: 1 <= n <= 3 and 1 <= w <= 3 and len(cells) == 4
  pre: all(len(x) <= 1 and _alpha(x) for x in cells)
  post: _
  """
  n, w, hdr = realize(n), realize(w), realize(hdr)
  rows = [[cells[(i * w + j) % 4] if (i + j) % 2 == 0 else "q%d%d" % (i, j) for j in range(w)] for i in range(n)]
  return _check(rows, hdr)


def _rows_of(func, args, kw):
  import inspect
  names = list(inspect.signature(globals()[func]).parameters)
  a = dict(zip(names, args)); a.update(kw)
  if func == "ragged":
    rows = [["f%d_%d" % (i, j) for j in range(a["w1"])] for i in range(a["k"])]
    rows.append([a["a"], a["b"], a["c"]][:a["w2"]])
    rows.append((["x", a["c"], a["a"]])[:a["w3"]])
  elif func == "sample_boundary":
    rows = [["f%d_%d" % (i, j) for j in range(a["w1"])] for i in range(a["k"])] + [["z%d" % j for j in range(a["w2"])]]
  else:
    n, w, cells = a["n"], a["w"], a["cells"]
    rows = [[cells[(i * w + j) % 4] if (i + j) % 2 == 0 else "q%d%d" % (i, j) for j in range(w)] for i in range(n)]
  return rows


def classify(func, args, kw):
  """names the known defect a counterexample is an instance of (used to match known_findings.json)"""
  rows = _rows_of(func, args, kw)
  widths = [len(r) for r in rows]
  sample = widths[:100]
  if any(w > max(sample) for w in widths[100:]):
    return "row_after_the_100_row_sample_is_wider_than_every_sampled_row"
  # input class: a row with content sits above the first row that has (nearly) as many non-blank cells
  # as the most common multi-cell row of the sample
  filled = [sum(1 for c in r if not _blank(c)) for r in rows[:100]]
  multi = [n for n in filled if n > 1]
  if multi:
    commonest = max(set(multi), key=multi.count)
    candidates = set(n for n in set(multi) if multi.count(n) == multi.count(commonest))
    for modal in candidates:
      first = next((i for i, n in enumerate(filled) if n >= modal - 1), None)
      if first and any(0 < filled[i] < modal - 1 for i in range(first)):
        return "rows_narrower_than_the_widest_minus_one_before_the_first_wide_row_are_dropped_as_preamble"
  return "other"


CELLS = ["a", "1", "", " ", "-", "é"]
LEVEL = "exploration"
OBLIGATIONS = []
ENUM = [
  {"func": "rectangular", "domains": {"n": [1, 2, 3], "w": [1, 2, 3], "hdr": [False, True],
                                      "cells": [[a, b, c, d] for a in CELLS for b in CELLS for c in CELLS[:3] for d in CELLS[:2]]},
   "shard_by": "n", "max_s": 300, "desc": "rectangular grids <= 3x3"},
  {"func": "ragged", "domains": {"k": [0, 1, 2, 3], "w1": [1, 2, 3], "w2": [1, 2, 3], "w3": [1, 2, 3], "hdr": [False, True],
                                 "a": CELLS, "b": CELLS, "c": CELLS}, "shard_by": "k", "max_s": 300,
   "desc": "k <= 3 rows of width w1, then two rows of widths w2, w3"},
  {"func": "sample_boundary", "domains": {"k": [98, 99, 100, 101, 102], "w1": [1, 2, 3], "w2": [1, 2, 3], "hdr": [False, True]},
   "shard_by": "k", "max_s": 300, "desc": "98..102 rows of width w1 then a row of width w2 (the 100-row header sample boundary)"},
]
BOUNDS = {"cells": "one of %r (plus fixed multi-char fillers)" % (CELLS,), "widths": "<= 3", "rows": "<= 5 shaped rows; up to 102 filler rows"}
FILES = ["sandbox/grist/imports/import_csv.py", "sandbox/grist/imports/import_utils.py", "sandbox/grist/parse_data.py"]
ASSUMPTIONS = ["every grid is written with the real csv module (delimiter ',', every cell quoted) and imported with parse_file: no stub; "
               "CrossHair cannot follow the importer's regular expressions on symbolic strings ('nothing to repeat'), so the grid space is "
               "enumerated by the z3 AllSAT loop instead of being symbolic",
               "numeric-looking cells may come back as numbers with the same value; whitespace-only cells count as empty"]
