"""C33 obligations: imports.import_json.dumps reconstructs the input (symbolic JSON values)."""
import os
from typing import List, Dict, Union, Optional
from imports import import_json

THOROUGH = os.environ.get("VERIF_TIER") == "thorough"
S = Union[int, str, None, bool]
D1 = Dict[str, S]
KEYS = ("a", "b", "", "a_b")
OPTS = [("", ""), ("N_a", ""), ("", "N_a"), ("N", "N_a_b"), ("", "N_b;N_a_b"), ("X", "")]


def _leaves(v, out):
  if isinstance(v, dict):
    for x in v.values():
      _leaves(x, out)
  elif isinstance(v, list):
    for x in v:
      _leaves(x, out)
  elif v is not None:
    out.append((type(v).__name__, v))


def _by_type(pairs):
  """multiset of (type name, value) pairs as {type name: sorted values} (no repr: stays symbolic)"""
  out = {}
  for tn, v in pairs:
    out.setdefault(tn, []).append(v)
  return {tn: sorted(vs) for tn, vs in out.items()}


def _check(data, opt=0, count_all=True):
  inc, exc = OPTS[opt]
  res = import_json.dumps(data, "N", {"includes": inc, "excludes": exc})
  tables = {t["table_name"]: t for t in res["tables"]}
  if len(tables) != len(res["tables"]):
    return False                                     # two tables with one name
  sizes = {}
  for name, t in tables.items():
    lens = {len(c) for c in t["table_data"]}
    if len(lens) > 1 or len(t["column_metadata"]) != len(t["table_data"]):
      return False                                   # columns of different lengths
    sizes[name] = lens.pop() if lens else None
  items = data if isinstance(data, list) else [data]
  if opt == 0 and "N" in tables and sizes["N"] is not None and sizes["N"] != len(items):
    return False                                     # top-level items become rows of the main table
  cells = []
  for name, t in tables.items():
    for meta, col in zip(t["column_metadata"], t["table_data"]):
      ty = meta["type"]
      if ty.startswith("Ref:"):
        target = ty[4:]
        if target not in tables:
          return False                               # reference to a table that was not produced
        n = sizes[target]
        for v in col:
          # (a target table without columns cannot show how many rows it has: only the id's shape is checked)
          if v is not None and not (isinstance(v, int) and v >= 1 and (n is None or v <= n)):
            return False                             # dangling row reference
      else:
        for v in col:
          if v is not None:
            cells.append((type(v).__name__, v))
  if opt == 0 and count_all:
    want = []
    _leaves(data, want)
    if _by_type(want) != _by_type(cells):
      return False                                   # every scalar exactly once
  return True


def _ok_keys(d):
  return all(k in KEYS for k in d)


def _same_kinds(rows):
  """a key holds an object in every row or in none (mixed kinds under one key are outside the claim)"""
  kinds = {}
  for r in rows:
    for k, v in r.items():
      if kinds.setdefault(k, isinstance(v, dict)) != isinstance(v, dict):
        return False
  return True


def flat(rows: List[D1]) -> bool:
  """
  pre: len(rows) <= 2 and all(len(r) <= 2 and all(k in ("a", "b") for k in r) for r in rows)
  pre: all((not isinstance(v, str)) or len(v) <= 1 for r in rows for v in r.values())
  post: _
  """
  return _check(rows)


_KS = [[], ["a"], ["b"], ["a", "b"]]


def _shape_rows(shape, v):
  """rows with concrete key sets (shape) and symbolic values"""
  r1, r2 = _KS[shape % 4], ([None] + _KS)[shape // 4]
  rows = [{k: v[i] for i, k in enumerate(r1)}]
  if r2 is not None:
    rows.append({k: v[2 + i] for i, k in enumerate(r2)})
  return rows


def flat_ints(shape: int, v: List[Optional[int]]) -> bool:
  """
  pre: 0 <= shape < 20 and len(v) == 4
  post: _
  """
  return _check(_shape_rows(shape, v))


def flat_strs(shape: int, v: List[Optional[str]]) -> bool:
  """
  pre: 0 <= shape < 20 and len(v) == 4 and all(x is None or len(x) <= 1 for x in v)
  post: _
  """
  return _check(_shape_rows(shape, v))


def scalar_ints(rows: List[int], single: int) -> bool:
  """
  pre: len(rows) <= 3
  post: _
  """
  return _check(rows) and _check(single)


def scalar_strs(rows: List[str], single: str) -> bool:
  """
  pre: len(rows) <= 2 and all(len(v) <= 2 for v in rows) and len(single) <= 2
  post: _
  """
  return _check(rows) and _check(single)


def scalars(rows: List[S], single: S) -> bool:
  """
  pre: len(rows) <= 2 and all((not isinstance(v, str)) or len(v) <= 1 for v in rows)
  pre: (not isinstance(single, str)) or len(single) <= 1
  post: _
  """
  return _check(rows) and _check(single)


def nested_objects(rows: List[Dict[str, Union[int, None, D1]]], opt: int) -> bool:
  """
  pre: len(rows) <= 2 and all(len(r) <= 2 and _ok_keys(r) for r in rows)
  pre: all((not isinstance(v, dict)) or (len(v) <= 2 and _ok_keys(v)) for r in rows for v in r.values())
  pre: all((not isinstance(x, str)) or len(x) <= 1 for r in rows for v in r.values() if isinstance(v, dict) for x in v.values())
  pre: 0 <= opt < len(OPTS) and _same_kinds(rows)
  post: _
  """
  return _check(rows, opt)


def arrays(rows: List[Dict[str, List[Union[int, D1]]]], opt: int) -> bool:
  """
  pre: len(rows) <= 2 and all(len(r) <= 1 and _ok_keys(r) for r in rows)
  pre: all(len(v) <= 2 for r in rows for v in r.values())
  pre: all((not isinstance(x, dict)) or (len(x) <= 1 and _ok_keys(x)) for r in rows for v in r.values() for x in v)
  pre: all((not isinstance(y, str)) or len(y) <= 1 for r in rows for v in r.values() for x in v if isinstance(x, dict) for y in x.values())
  pre: 0 <= opt < len(OPTS)
  post: _
  """
  return _check(rows, opt)


_S = [1, "x", None, True, 0, ""]
_OBJ = [{"a": 1}, {"a": "x", "b": None}, {"": 1, "a_b": 2}, {}, {"b": True}, {"a": {"b": 1}}, {"a": {"b": 1}, "a_b": 2}, {"a": {"": 1}, "": 3},
        {"a": {"a": None}}, {"b": {"a": "x"}, "a": {}}, {"a": {}}, {"a": {"b": 1}, "b": {"b": 2}}, {"a": {"a_b": 1}, "a_b": {"a": 2}}]
_ARR = [{"a": [1, 2]}, {"a": [{"b": 1}, 2]}, {"a": [{"a": 1}, {"b": "x"}]}, {"b": []}, {"a_b": [1]}, {"": [{"": 1}]}, {"a": [{}]}, {"a": [None, {"a": None}]}]


def nested_case(r1, r2, opt):
  rows = [_OBJ[r1]] + ([_OBJ[r2]] if r2 is not None else [])
  return True if not _same_kinds(rows) else _check(rows, opt)


def arrays_case(r1, r2, opt):
  return _check([_ARR[r1]] + ([_ARR[r2]] if r2 is not None else []), opt)


def mixed_case(r1, r2, opt):
  rows = [_OBJ[r1], _ARR[r2]]
  return True if not _same_kinds(rows) else _check(rows, opt, count_all=True)


# ---------------------------------------------------------------------------------------------------------------
# reconstruction: the input is rebuilt from the produced tables alone (scalar columns, Ref:<T>_<key> columns for nested
# objects, the back-reference column named after the parent table for array elements) and compared with the input; rows
# may use one key for an object in one record and for an array in another (both live in the same sub-table)

_HET = [{"a": {"b": 1}}, {"a": [{"b": 2}, {"b": 3}]}, {"a": [1, 2]}, {"a": [{"b": 1}, 5]}, {"b": "x"}, {"a": {"a": {"b": 1}}},
        {"a": [{"a": [{"b": 1}]}]}, {"a": {"b": 1}, "b": [7]}, {"a": [], "b": 1}, {"a": {"a": [1]}},
        {"a": [{"a": {"b": "y"}}, {"a": [{"b": "z"}]}]}, {}]


def _norm(v):
  """what the tables can represent: no nulls, no empty containers"""
  if isinstance(v, dict):
    out = {k: _norm(x) for k, x in v.items()}
    return {k: x for k, x in out.items() if x not in (None, {}, [])}
  if isinstance(v, list):
    return [y for y in (_norm(x) for x in v) if y not in (None, {}, [])]
  return v


def _reconstruct(res, nitems, main="N"):
  tables = {t["table_name"]: {m["id"]: (m["type"], col) for m, col in zip(t["column_metadata"], t["table_data"])} for t in res["tables"]}

  def rec(T, i):
    c = tables[T]
    if "" in c and c[""][1][i - 1] is not None:
      return c[""][1][i - 1]
    obj = {}
    for cid, (ty, data) in c.items():
      v = data[i - 1]
      if cid == "" or v is None:
        continue
      if ty.startswith("Ref:"):
        if ty[4:] == T + "_" + cid:
          obj[cid] = rec(ty[4:], v)
      else:
        obj[cid] = v
    for k in ("a", "b"):
      S = T + "_" + k
      if S in tables and T in tables[S] and tables[S][T][0] == "Ref:" + T:
        arr = [rec(S, j + 1) for j, par in enumerate(tables[S][T][1]) if par == i]
        if arr:
          if k in obj:
            raise AssertionError("row %d of %s has both an object and array elements under key %r" % (i, T, k))
          obj[k] = arr
    return obj
  return [rec(main, i + 1) for i in range(nitems)] if main in tables else [{} for _ in range(nitems)]


def hetero_case(r1, r2, r3):
  rows = [_HET[r1], _HET[r2]] + ([_HET[r3]] if r3 is not None else [])
  res = import_json.dumps(rows, "N", {"includes": "", "excludes": ""})
  got = [_norm(x) for x in _reconstruct(res, len(rows))]
  want = [_norm(x) for x in rows]
  if got != want:
    raise AssertionError("input %r: the tables reconstruct to %r" % (rows, got))
  return _check(rows, 0)


OBLIGATIONS = [
  {"func": "flat_ints", "cond_timeout": 100, "desc": "<= 2 flat objects, each key set out of {a, b} (20 shapes), unbounded int or null values (symbolic)"},
  {"func": "flat_strs", "cond_timeout": 60, "desc": "same shapes, str (len <= 1) or null values (symbolic)"},
  {"func": "scalar_ints", "cond_timeout": 60, "desc": "top-level list of <= 3 unbounded ints; a single int document"},
  {"func": "scalar_strs", "cond_timeout": 60, "desc": "top-level list of <= 2 strs of len <= 2; a single str document"},
  {"func": "flat", "cond_timeout": 60, "desc": "<= 2 flat objects with keys from %r (symbolic scalars)" % (KEYS,)},
  {"func": "scalars", "cond_timeout": 100, "desc": "top-level scalar items; a single scalar document (symbolic)"},
]
_N = list(range(len(_OBJ)))
_M = list(range(len(_ARR)))
ENUM = [
  {"func": "nested_case", "domains": {"r1": _N, "r2": [None] + _N, "opt": list(range(len(OPTS)))}, "max_s": 200,
   "desc": "1-2 rows from %d nested-object shapes x %d include/exclude options" % (len(_OBJ), len(OPTS))},
  {"func": "arrays_case", "domains": {"r1": _M, "r2": [None] + _M, "opt": list(range(len(OPTS)))}, "max_s": 200,
   "desc": "1-2 rows from %d array shapes x options" % len(_ARR)},
  {"func": "hetero_case", "domains": {"r1": list(range(len(_HET))), "r2": list(range(len(_HET))), "r3": [None] + list(range(len(_HET)))}, "shard_by": "r1", "max_s": 200,
   "desc": "2-3 records out of %d shapes in which one key is an object in one record and an array (of objects / scalars) in another: the input is "
           "reconstructed from the tables alone (nested-object references, back-references of array elements)" % len(_HET)},
  {"func": "mixed_case", "domains": {"r1": _N, "r2": _M, "opt": list(range(len(OPTS)))}, "max_s": 200, "desc": "an object row and an array row"},
]
BOUNDS = {"keys": KEYS, "rows": "<= 2", "depth": "<= 3", "options (includes, excludes)": OPTS}
FILES = ["sandbox/grist/imports/import_json.py"]
ASSUMPTIONS = ["a key holds an object in every row or in none (a key that is a scalar in one row and an object in another stores the sub-row's id in a scalar column: outside the claim)",
               "a table without columns (e.g. items that are arrays only) is not required to represent its rows (DESIGN C33)",
               "null scalars are not counted (a missing key and null both import as None)"]
