"""C36 obligations: the real treeview.fix_indents on symbolic indentation lists."""
import os
from typing import List
from collections import namedtuple
import treeview

Item = namedtuple('Item', 'id indentation')
MAXLEN = 4 if os.environ.get("VERIF_TIER") != "thorough" else 5


def tree_valid(indents: List[int], deleted: List[bool]) -> bool:
  """
  pre: 1 <= len(indents) <= MAXLEN and len(deleted) == len(indents)
  pre: all(0 <= x for x in indents)
  post: _
  """
  items = [Item(i + 1, ind) for i, ind in enumerate(indents)]
  del_ids = {i + 1 for i, d in enumerate(deleted) if d}
  fixes = treeview.fix_indents(items, del_ids)
  fd = dict(fixes)
  ok = len(fd) == len(fixes)                  # one fix per page at most
  prev = -1                                   # level of the previous remaining page
  for it in items:
    if it.id in del_ids:
      ok = ok and it.id not in fd             # removed pages are not touched
      continue
    new = fd.get(it.id, it.indentation)
    ok = ok and 0 <= new <= it.indentation    # never deeper than it was
    ok = ok and new <= prev + 1               # first page at 0, then at most one deeper
    if it.id in fd:
      ok = ok and new != it.indentation       # a fix changes something
    prev = new
  return ok


def only_violating_pages_change(indents: List[int], deleted: List[bool]) -> bool:
  """
  pre: 1 <= len(indents) <= MAXLEN and len(deleted) == len(indents)
  pre: all(0 <= x for x in indents)
  post: _
  """
  items = [Item(i + 1, ind) for i, ind in enumerate(indents)]
  del_ids = {i + 1 for i, d in enumerate(deleted) if d}
  fd = dict(treeview.fix_indents(items, del_ids))
  # reference: a page keeps its level unless it is deeper than its context allows; the children of
  # a removed page move up to that page's (fixed) level
  allowed = 0
  ok = True
  for i, it in enumerate(items):
    new = it.indentation if it.indentation <= allowed else allowed
    if deleted[i]:
      allowed = new
    else:
      ok = ok and fd.get(it.id, it.indentation) == new
      allowed = new + 1
  return ok


def no_removal_valid_tree_unchanged(indents: List[int]) -> bool:
  """
  pre: 1 <= len(indents) <= MAXLEN
  pre: indents[0] == 0 and all(0 <= indents[i + 1] <= indents[i] + 1 for i in range(len(indents) - 1))
  post: _
  """
  items = [Item(i + 1, ind) for i, ind in enumerate(indents)]
  return treeview.fix_indents(items, set()) == []


OBLIGATIONS = [
  {"func": "tree_valid", "cond_timeout": 100, "desc": "remaining pages form a valid tree; never deeper; removed pages untouched"},
  {"func": "only_violating_pages_change", "cond_timeout": 100, "desc": "exactly the pages deeper than their context allows change"},
  {"func": "no_removal_valid_tree_unchanged", "cond_timeout": 100, "desc": "a valid tree with no removal gets no fixes"},
]
BOUNDS = {"len(indents)": "<= %d" % MAXLEN, "indent values": "unbounded non-negative ints (symbolic)"}
FILES = ["sandbox/grist/treeview.py"]
