"""C37 obligations: textbuilder.Replacer / Combiner on symbolic texts, patches and offsets."""
import os
import textbuilder as tb

THOROUGH = os.environ.get("VERIF_TIER") == "thorough"
TL = 4 if THOROUGH else 3        # max text length
NL = 2 if THOROUGH else 1        # max replacement length
ALPHA = "ab$"


def _ok_alpha(*ss):
  return all(c in ALPHA for s in ss for c in s)


def replacer_text(text: str, s1: int, e1: int, n1: str, s2: int, e2: int, n2: str) -> bool:
  """
  pre: len(text) <= TL and len(n1) <= NL and len(n2) <= NL and _ok_alpha(text, n1, n2)
  pre: 0 <= s1 <= e1 <= s2 <= e2 <= len(text)
  pre: not (s1 == e1 == s2 == e2)
  post: _
  """
  r = tb.Replacer(tb.Text(text, "V"), [tb.make_patch(text, s2, e2, n2), tb.make_patch(text, s1, e1, n1)])
  return r.get_text() == text[:s1] + n1 + text[e1:s2] + n2 + text[e2:]


def _regions(text, s1, e1, n1, s2, e2, n2):
  """unchanged regions as (out_start, out_end, in_start, far): `far` lists the input positions on the
  far side of the pure deletions that start exactly at the region's end (zero-width in the output)"""
  o1 = s1 + len(n1)
  o2 = o1 + (s2 - e1)
  o3 = o2 + len(n2)
  out_len = o3 + len(text) - e2

  def far_from(x, patches):
    out = []
    for (s, e, n) in patches:
      if s == x and n == "":
        if e > s:
          out.append(e)
        x = e
      else:
        break
    return out
  return [(0, s1, 0, far_from(s1, [(s1, e1, n1), (s2, e2, n2)])),
          (o1, o2, e1, far_from(s2, [(s2, e2, n2)])),
          (o3, out_len, e2, [])]


def replacer_mapback(text: str, s1: int, e1: int, n1: str, s2: int, e2: int, n2: str, ps: int, pe: int) -> bool:
  """
  pre: len(text) <= TL and len(n1) <= NL and len(n2) <= NL and _ok_alpha(text, n1, n2)
  pre: 0 <= s1 <= e1 <= s2 <= e2 <= len(text)
  pre: not (s1 == e1 == s2 == e2)
  pre: 0 <= ps < pe
  post: _
  """
  r = tb.Replacer(tb.Text(text, "V"), [tb.make_patch(text, s1, e1, n1), tb.make_patch(text, s2, e2, n2)])
  out = r.get_text()
  if pe > len(out):
    return True
  for (os_, oe, ins, far) in _regions(text, s1, e1, n1, s2, e2, n2):
    if os_ <= ps and pe <= oe:
      t, v, back = r.map_back_patch(tb.make_patch(out, ps, pe, "Z"))
      start = ins + (ps - os_)
      end = start + (pe - ps)
      ok_end = back.end == end or (pe == oe and back.end in far)
      return (t == text and v == "V" and back.start == start and ok_end and back.new_text == "Z"
              and text[back.start:end] == out[ps:pe] and back.old_text == text[back.start:back.end])
  return True      # the patch touches replaced text: nothing is demanded


def combiner_mapback(lit: str, text: str, s1: int, e1: int, n1: str, t2: str, ps: int, pe: int) -> bool:
  """
  pre: len(lit) <= 1 and len(text) <= TL and len(n1) <= NL and len(t2) <= 2 and _ok_alpha(lit, text, n1, t2)
  pre: 0 <= s1 <= e1 <= len(text)
  pre: 0 <= ps < pe
  post: _
  """
  r = tb.Replacer(tb.Text(text, "V"), [tb.make_patch(text, s1, e1, n1)])
  second = tb.Text(t2, "W")
  c = tb.Combiner([lit, r, second])
  rout = r.get_text()
  full = c.get_text()
  if full != lit + rout + t2:
    return False
  if pe > len(full):
    return True
  patch = tb.make_patch(full, ps, pe, "Z")
  a, b = len(lit), len(lit) + len(rout)
  try:
    got = c.map_back_patch(patch)
  except ValueError:
    # refused: only legitimate when the patch spans more than one part
    return not ((pe <= a) or (a <= ps and pe <= b) or (b <= ps))
  if pe <= a:
    return got is None                                # inside the literal: nothing to map to
  if b <= ps:
    t, v, back = got
    return t == t2 and v == "W" and (back.start, back.end) == (ps - b, pe - b) and back.new_text == "Z"
  if a <= ps and pe <= b:
    exp = r.map_back_patch(tb.make_patch(rout, ps - a, pe - a, "Z"))
    return got == exp
  return False                                          # spans parts but was not refused


def nested_mapback(text: str, s1: int, e1: int, n1: str, s3: int, e3: int, n3: str, ps: int, pe: int) -> bool:
  """
  pre: len(text) <= TL and len(n1) <= NL and len(n3) <= NL and _ok_alpha(text, n1, n3)
  pre: 0 <= s1 <= e1 <= len(text)
  pre: 0 <= s3 <= e3
  pre: 0 <= ps < pe
  post: _
  """
  r1 = tb.Replacer(tb.Text(text, "V"), [tb.make_patch(text, s1, e1, n1)])
  mid = r1.get_text()
  if e3 > len(mid):
    return True
  r2 = tb.Replacer(r1, [tb.make_patch(mid, s3, e3, n3)])
  out = r2.get_text()
  if out != mid[:s3] + n3 + mid[e3:]:
    return False
  if pe > len(out):
    return True
  # characters of `out` that are copies of characters of `text`: track origin indices
  origin1 = list(range(0, s1)) + [None] * len(n1) + list(range(e1, len(text)))     # mid -> text
  origin = origin1[:s3] + [None] * len(n3) + origin1[e3:]                           # out -> text
  src = origin[ps:pe]
  if any(x is None for x in src) or any(src[k + 1] != src[k] + 1 for k in range(len(src) - 1)):
    return True      # touches replaced text or straddles a deletion: nothing is demanded
  t, v, back = r2.map_back_patch(tb.make_patch(out, ps, pe, "Z"))
  # the end may lie on the far side of a zero-width (pure deletion) boundary
  return (t == text and v == "V" and back.start == src[0] and back.end >= src[-1] + 1
          and text[back.start:src[-1] + 1] == out[ps:pe] and back.new_text == "Z"
          and r2.map_back_offset(ps) == src[0])


import itertools as _it
ETL = TL - 1                       # enumerated texts are one character shorter than the symbolic ones
_TEXTS = ["".join(t) for n in range(ETL + 1) for t in _it.product(ALPHA, repeat=n)]
_REPL = ["".join(t) for n in range(NL + 1) for t in _it.product("a$", repeat=n)]
_OFF = list(range(ETL + 1))


def combiner_case(text, s1, e1, n1, lit, t2, ps, pe):
  return combiner_mapback(lit, text, s1, e1, n1, t2, ps, pe)


def nested_case(text, s1, e1, n1, s3, e3, n3, ps, pe):
  return nested_mapback(text, s1, e1, n1, s3, e3, n3, ps, pe)


def _prune_combiner(kw):
  if "e1" in kw and not (kw["s1"] <= kw["e1"] <= len(kw["text"])):
    return False
  if "pe" in kw:
    full = len(kw["lit"]) + len(kw["text"]) - (kw["e1"] - kw["s1"]) + len(kw["n1"]) + len(kw["t2"])
    return kw["ps"] < kw["pe"] <= full
  return True


def _prune_nested(kw):
  if "e1" in kw and not (kw["s1"] <= kw["e1"] <= len(kw["text"])):
    return False
  if "e3" in kw:
    mid = len(kw["text"]) - (kw["e1"] - kw["s1"]) + len(kw["n1"])
    if not (kw["s3"] <= kw["e3"] <= mid):
      return False
    if "pe" in kw:
      return kw["ps"] < kw["pe"] <= mid - (kw["e3"] - kw["s3"]) + len(kw["n3"])
  return True


PRUNE = {"combiner_case": _prune_combiner, "nested_case": _prune_nested}

OBLIGATIONS = [
  {"func": "replacer_text", "cond_timeout": 100, "desc": "Replacer output == direct application of two non-overlapping patches (symbolic text, patches, offsets)"},
  {"func": "replacer_mapback", "cond_timeout": 100, "desc": "patch inside unchanged output text maps back to the same source characters (symbolic)"},
  {"func": "combiner_mapback", "cond_timeout": 100, "desc": "Combiner routes a patch to its part, refuses spanning patches, None for literals (symbolic)"},
  {"func": "nested_mapback", "cond_timeout": 100, "desc": "Replacer over Replacer (symbolic)"},
]
ENUM = [
  {"func": "combiner_case", "domains": {"text": _TEXTS, "s1": _OFF, "e1": _OFF, "n1": _REPL, "lit": ["", "a"], "t2": ["", "b", "ab"],
                                        "ps": list(range(ETL + 4)), "pe": list(range(1, ETL + 5))}, "shard_by": "text", "max_s": 100,
   "desc": "Combiner[literal, Replacer(one patch), Text]: every text (len <= %d), patch and output patch of the bounded space" % ETL},
  {"func": "nested_case", "domains": {"text": _TEXTS, "s1": _OFF, "e1": _OFF, "n1": _REPL, "s3": list(range(ETL + 2)), "e3": list(range(ETL + 2)), "n3": _REPL,
                                      "ps": list(range(ETL + 2)), "pe": list(range(1, ETL + 3))}, "shard_by": "text", "max_s": 100,
   "desc": "Replacer over Replacer: output, map_back_patch and map_back_offset through both levels, texts of len <= %d" % ETL},
]
BOUNDS = {"text": "len <= %d over alphabet 'ab$' (symbolic), <= %d (enumerated)" % (TL, ETL), "replacements": "len <= %d" % NL, "offsets": "all (symbolic ints)",
          "compositions": "Replacer(2 patches); Combiner[literal, Replacer, Text]; Replacer(Replacer)"}
FILES = ["sandbox/grist/textbuilder.py"]
ASSUMPTIONS = ["a patch that ends exactly where a pure deletion begins may map its end to either side of the deleted source text "
               "(the property's 'corresponding characters' is ambiguous there; DESIGN C37)",
               "two empty patches at the same position are excluded (their order is sorted(), not argument order)"]
