"""C40 obligations: predicate_formula.parse_predicate_formula vs Python eval, symbolic variable values.

Programs (expression texts) are enumerated from a grammar of depth <= 2 (quick) over the operators the
property lists; the values of $a, $b (unbounded ints), $c (bool), $s (str, len <= 2) and user.x (int)
are symbolic.  The expression index is a symbolic int that CrossHair realises (one path family per
expression); the 8 obligations split the index range."""
import os, json, itertools
import predicate_formula as pf

THOROUGH = os.environ.get("VERIF_TIER") == "thorough"


class Rec(object):
  def __init__(self, **kw):
    self.__dict__.update(kw)


class Err(Exception):
  pass


def ev(node, env):
  """node semantics: the Python meaning of each node type listed in parse_predicate_formula's docstring"""
  k = node[0]
  a = node[1:]
  if k == 'And':
    return all(ev(x, env) for x in a)
  if k == 'Or':
    return any(ev(x, env) for x in a)
  if k == 'Not':
    return not ev(a[0], env)
  if k == 'Const':
    return a[0]
  if k == 'Name':
    return env[a[0]]
  if k == 'Attr':
    return getattr(ev(a[0], env), a[1])
  if k == 'List':
    return [ev(x, env) for x in a]
  if k == 'Comment':
    return ev(a[0], env)
  l, r = ev(a[0], env), ev(a[1], env)
  if k == 'Add': return l + r
  if k == 'Sub': return l - r
  if k == 'Mult': return l * r
  if k == 'Div': return l / r
  if k == 'Mod': return l % r
  if k == 'Eq': return l == r
  if k == 'NotEq': return l != r
  if k == 'Lt': return l < r
  if k == 'LtE': return l <= r
  if k == 'Gt': return l > r
  if k == 'GtE': return l >= r
  if k == 'In': return l in r
  if k == 'NotIn': return l not in r
  if k == 'Is': return l is r
  if k == 'IsNot': return l is not r
  raise Err("unknown node %r" % (k,))


NUM = ["$a", "$b", "1", "0", "user.x", "rec.a"]
ARITH = ["+", "-", "*", "%"]
CMP = ["==", "!=", "<", "<=", ">", ">="]


def _gen():
  out = []
  nums2 = ["(%s %s %s)" % (x, op, y) for x in NUM[:3] for op in ARITH for y in NUM[:4] if not (op == "%" and y == "0")]
  for x in NUM + nums2[:12]:
    for op in CMP:
      for y in NUM[:3]:
        out.append("%s %s %s" % (x, op, y))
  cmps = out[:24]
  for x in cmps[:8]:
    for y in ["$c", "not $c", cmps[9], "$s == 'x'"]:
      out.append("%s and %s" % (x, y))
      out.append("%s or %s" % (x, y))
      out.append("not (%s or %s)" % (x, y))
  for x in NUM[:3]:
    out.append("%s in [$a, 1, $b]" % x)
    out.append("%s not in [$b, 2]" % x)
    out.append("%s in [] or $c" % x)
  out += ["$s in ['x', '', $s]", "$s == ''", "$s != 'ab' and $c", "$s + 'x' == 'xx'", "$c is True", "$c is not None",
          "None is None", "$a / 2 > $b", "($a * 2 + $b) % 3 == 1  # trailing comment", "$a == 1 #c", "not $c",
          "$c and $c or not $c", "[$a, $b] == [$b, $a]", "$a * $b == 0 or $a - $b != $b - $a", "user.x + rec.a < $b",
          # non-ASCII text in front of a $name on the same line (byte offsets and character offsets differ there)
          "$s == 'é' and $a == 1", "'Zoë' == $s or $b > $a", "user.x == 1 and 'ü' != $s  # cömment", "$s in ['é', 'ß'] and $c",
          "'中' + $s == '中x' or $a == $b", "$a == 1 and $s == '\U0001F600' or $c", "'é' != 'e' and $c and $a < $b"]
  if THOROUGH:
    more = []
    for x, y in itertools.product(nums2, nums2[::5]):
      more.append("%s <= %s" % (x, y))
    out += more[:600]
  return out


EXPRS = _gen()
N = len(EXPRS)
BAD = ["lambda: 1", "$a[0]", "1 < $a < 3", "$a ** 2", "(x := 1)", "[*$a]", "$a if $c else $b", "{1: 2}", "f'{$a}'",
       "$a // 2", "-$a", "$a & 1", "$a | 1", "~$a", "[x for x in $a]", "{$a}", "$a << 1", "$a @ $b", "+$a",
       "yield 1", "await $a", "$a.b.c[1]", "1 if", "and", "$", "", "  ", "print $a", "$a = 1", "import os", "$a;$b",
       "`1`", "1 <> 2", "$a ? 1 : 2", "not", "(", "]", "'", "\"\"\""]


def _agree(i, a, b, c, s, x):
  text = EXPRS[i]
  tree = pf.parse_predicate_formula(text)
  json.dumps(tree)                                  # must be JSON-serialisable
  env = {'rec': Rec(a=a, b=b, c=c, s=s), 'user': Rec(x=x)}
  pytext = text.split('#')[0].replace('$', 'rec.')
  try:
    py = eval(pytext, {}, dict(env))
    perr = None
  except Exception as e:
    perr = type(e).__name__
  try:
    got = ev(tree, env)
    gerr = None
  except Err:
    raise
  except Exception as e:
    gerr = type(e).__name__
  if perr or gerr:
    return perr == gerr
  if isinstance(py, bool) or isinstance(got, bool):
    return bool(py) == bool(got)
  return py == got and type(py) == type(got)


def _mk(k, parts):
  lo = (N * k) // parts
  hi = (N * (k + 1)) // parts
  return lo, hi


PARTS = 8
R = [_mk(k, PARTS) for k in range(PARTS)]


def agree0(i: int, a: int, b: int, c: bool, s: str, x: int) -> bool:
  """
  pre: R[0][0] <= i < R[0][1] and len(s) <= 2
  post: _
  """
  return _agree(i, a, b, c, s, x)


def agree1(i: int, a: int, b: int, c: bool, s: str, x: int) -> bool:
  """
  pre: R[1][0] <= i < R[1][1] and len(s) <= 2
  post: _
  """
  return _agree(i, a, b, c, s, x)


def agree2(i: int, a: int, b: int, c: bool, s: str, x: int) -> bool:
  """
  pre: R[2][0] <= i < R[2][1] and len(s) <= 2
  post: _
  """
  return _agree(i, a, b, c, s, x)


def agree3(i: int, a: int, b: int, c: bool, s: str, x: int) -> bool:
  """
  pre: R[3][0] <= i < R[3][1] and len(s) <= 2
  post: _
  """
  return _agree(i, a, b, c, s, x)


def agree4(i: int, a: int, b: int, c: bool, s: str, x: int) -> bool:
  """
  pre: R[4][0] <= i < R[4][1] and len(s) <= 2
  post: _
  """
  return _agree(i, a, b, c, s, x)


def agree5(i: int, a: int, b: int, c: bool, s: str, x: int) -> bool:
  """
  pre: R[5][0] <= i < R[5][1] and len(s) <= 2
  post: _
  """
  return _agree(i, a, b, c, s, x)


def agree6(i: int, a: int, b: int, c: bool, s: str, x: int) -> bool:
  """
  pre: R[6][0] <= i < R[6][1] and len(s) <= 2
  post: _
  """
  return _agree(i, a, b, c, s, x)


def agree7(i: int, a: int, b: int, c: bool, s: str, x: int) -> bool:
  """
  pre: R[7][0] <= i < R[7][1] and len(s) <= 2
  post: _
  """
  return _agree(i, a, b, c, s, x)


def unsupported_raises(i: int) -> bool:
  """
  pre: 0 <= i < len(BAD)
  post: _
  """
  try:
    pf.parse_predicate_formula(BAD[i])
  except SyntaxError:
    return True
  return False


OBLIGATIONS = [{"func": "agree%d" % k, "cond_timeout": 150,
                "desc": "expressions %d..%d: tree JSON-serialisable; node semantics == Python eval for all values" % R[k]}
               for k in range(PARTS)]
OBLIGATIONS.append({"func": "unsupported_raises", "cond_timeout": 60, "desc": "%d non-subset texts raise SyntaxError" % len(BAD)})
BOUNDS = {"expressions": "%d generated texts, depth <= 2%s" % (N, " (+ depth-3 sample)" if THOROUGH else ""),
          "values": "$a,$b,user.x: unbounded ints; $c: bool; $s: str len <= 2", "non-subset texts": len(BAD)}
FILES = ["sandbox/grist/predicate_formula.py", "sandbox/grist/codebuilder.py", "sandbox/grist/textbuilder.py"]
ASSUMPTIONS = ["node semantics = the Python meaning of each node type (JS-specific behaviour of app/common/PredicateFormula.ts, "
               "e.g. % on negative numbers, is not modelled)",
               "the expression index and text are concrete per path (ast.parse is C code)"]
