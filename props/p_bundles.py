"""C01 C02 C03 C08 C31 (+ C20c invariant used by p_c20): E2-enum over user-action bundles."""
import os, sys, json, time, subprocess, re
import common, bundles as B, docfix as F

FILES = {
  "C01": ["sandbox/grist/engine.py", "sandbox/grist/docactions.py", "sandbox/grist/useractions.py",
          "sandbox/grist/action_summary.py", "sandbox/grist/action_obj.py"],
  "C02": ["sandbox/grist/engine.py", "sandbox/grist/docactions.py", "sandbox/grist/useractions.py",
          "sandbox/grist/action_summary.py", "sandbox/grist/table_data_set.py"],
  "C03": ["sandbox/grist/engine.py", "sandbox/grist/useractions.py", "sandbox/grist/docactions.py"],
  "C08": ["sandbox/grist/engine.py", "sandbox/grist/schema.py", "sandbox/grist/docactions.py",
          "sandbox/grist/useractions.py"],
  "C20": ["sandbox/grist/relabeling.py", "sandbox/grist/column.py", "sandbox/grist/docmodel.py"],
  "C31": ["sandbox/grist/useractions.py", "sandbox/grist/action_obj.py", "sandbox/grist/table.py",
          "sandbox/grist/docmodel.py"],
  "C09": ["sandbox/grist/useractions.py", "sandbox/grist/docmodel.py", "sandbox/grist/summary.py", "sandbox/grist/engine.py"],
  "C10": ["sandbox/grist/useractions.py", "sandbox/grist/column.py", "sandbox/grist/relation.py"],
  "C11": ["sandbox/grist/column.py", "sandbox/grist/reverse_references.py", "sandbox/grist/useractions.py"],
  "C12": ["sandbox/grist/summary.py", "sandbox/grist/table.py", "sandbox/grist/docmodel.py", "sandbox/grist/engine.py"],
}
ORACLE_TEXT = {
  "C01": "snapshot(all tables incl. _grist_*) before bundle == snapshot after ApplyUndoActions(returned undo); "
         "seq mode: undoing every bundle of the history in reverse restores the initial snapshot",
  "C02": "repository's TableDataSet fed with every stored action since InitNewDoc equals the engine "
         "(tables, row ids, all fetched cells); len(stored)==len(direct)",
  "C03": "snapshot after bundle == snapshot after undo followed by ApplyDocActions(stored)",
  "C08": "assert_schema_consistent passes; build_schema(metadata) == engine.schema; (parentId,colId) unique; "
         "no column record of a nonexistent table; checked after success and after rollback",
  "C20": "every PositionNumber column holds distinct finite values per table after each bundle",
  "C31": "direct flags parallel to stored; summary-table maintenance and formula-result updates non-direct; "
         "in bundles of record edits no schema action (the conversion of an empty column while data is entered) is direct; "
         "the user's record edits on ordinary tables direct",
  "C09": "after every successful bundle: every Ref/RefList metadata cell (columns read from schema_create_actions) points at an "
         "existing record; fields belong to their section's table; each user table has exactly one _grist_Tables record and a "
         "raw section; display/rule helper columns are still used by a column, field or rule list",
  "C10": "after every successful bundle: no data Ref cell points at a row the bundle removed, no RefList contains one; for "
         "removal-only bundles each RefList equals its previous list minus the removed ids, None when empty (user and metadata tables)",
  "C11": "after every successful bundle: for each pair of columns linked through reverseCol, a refers to b iff b refers to a; "
         "rejected bundles leave the document unchanged (checked by C04)",
  "C12": "after every successful bundle: for each summary table, keys == distinct group-by keys of the source (list cells "
         "contribute one key per distinct element, empty list -> ''/0, non-list -> none), keys unique, group == source rows "
         "with that key in ascending id order, no empty groups",
}


def plan(pid, tier):
  """list of shard argument tuples for B.run_shard:
  (fixture, mode, first_kind, nacts, pools of first action, pools of later actions, want, prefix_n, max_s, max_runs)"""
  want = {pid}
  shards = []
  kinds = F.ALL_KINDS
  if pid == "C31":
    kinds = F.RECORD_KINDS + ["AddColumn", "ModifyType", "Summary"]
  INV_FIX = {"C09": (("views", "small"), ("summary", "small"), ("twoway", "small"), ("cascade", "small")),
             "C10": (("twoway", "med"), ("basic", "med"), ("views", "small"), ("summary", "small"), ("cascade", "small")),
             "C11": (("twoway", "full-nf"),),
             "C12": (("summary", "med"), ("basic", "small"), ("cascade", "small"))}
  if pid in INV_FIX:
    fx0 = INV_FIX[pid][0][0]
    if tier == "quick":
      for fx, size in INV_FIX[pid]:
        for k in kinds:
          shards.append((fx, "one", k, 1, size, size, want, 0, None, None))
      pairs = []
      for k in kinds:
        for k2 in kinds:
          pairs.append((fx0, "seq", k + "+" + k2, 2, "micro-nf" if pid == "C11" else "micro", "micro-nf" if pid == "C11" else "micro", want, 0, 10.0, None))
      return pairs + shards
    nf = "-nf" if pid == "C11" else ""        # C11: data<->formula switches of linked columns are outside the quantifier
    for fx, _ in INV_FIX[pid] + (("basic", "x"), ("types", "x")):
      for k in kinds:
        shards.append((fx, "one", k, 1, "full" + nf, "full" + nf, want, 0, None, None))
        for k2 in kinds:
          shards.append((fx, "seq", k + "+" + k2, 2, "tiny" + nf, "micro" + nf, want, 0, 120.0, None))
        if pid != "C11":
          # (histories with a generated prefix may switch a linked column between data and formula: not used for C11)
          shards.append((fx, "seq", k, 3, "micro", "micro", want, 2, 120.0, None))
    return shards
  if tier == "quick":
    for fx, size in (("basic", "med"), ("trigger2", "small"), ("types", "small"), ("summary", "small"),
                     ("twoway", "small"), ("lookup", "small"), ("cascade", "small"), ("empties", "small")):
      for k in kinds:
        shards.append((fx, "one", k, 1, size, size, want, 0, None, None))
    pairs = []
    second = [k for k in kinds if k in F.RECORD_KINDS + ["RemoveColumn", "RenameColumn", "ModifyType", "ModifyFormula", "RemoveTable"]]
    for k in kinds:
      for k2 in second:
        pairs.append(("basic", "one", k + "+" + k2, 2, "micro", "micro", want, 0, 20.0, None))
    if pid in ("C01", "C02", "C03"):
      # stored doc actions replayed as they are (redo path), one of them naming a row twice
      for fx in ("basic", "types"):
        shards.append((fx, "one", "RawDup", 1, "small", "small", want, 0, None, None))
    if pid == "C08":
      # every schema-affecting first action followed by an action that always raises: the rollback must restore the schema
      for fx in ("basic", "twoway", "summary", "cascade"):
        for k in F.SCHEMA_KINDS:
          shards.append((fx, "one", k + "+Fail", 2, "small", "micro", want, 0, 30.0, None))
    shards = pairs + shards
  else:
    if pid in ("C01", "C02", "C03"):
      for fx in ("basic", "types", "lookup", "summary"):
        shards.append((fx, "one", "RawDup", 1, "full", "full", want, 0, None, None))
    if pid == "C08":
      for fx in ("basic", "twoway", "summary", "cascade", "types", "views", "lookup"):
        for k in F.ALL_KINDS:
          shards.append((fx, "one", k + "+Fail", 2, "full", "micro", want, 0, None, None))
    fixtures = ["basic", "types", "twoway", "summary", "trigger", "trigger2", "views", "lookup", "cycles", "cascade", "empties"]
    for fx in fixtures:
      for k in (kinds if pid == "C31" else F.ALL_KINDS):
        shards.append((fx, "one", k, 1, "full", "full", want, 0, None, None))
        shards.append((fx, "one", k, 1, "med", "med", want, 4, 60.0, None))
        shards.append((fx, "one", k, 2, "micro", "micro", want, 0, 240.0, None))
        shards.append((fx, "seq", k, 2, "micro", "micro", want, 0, 240.0, None))
        shards.append((fx, "seq", k, 3, "micro", "micro", want, 2, 60.0, None))
  return shards


def _kinds(bundles):
  return [ua[0] + ("." + ",".join(sorted(ua[3])) if ua[0] == "ModifyColumn" and len(ua) > 3 else "")
          for b in bundles for ua in b]


def signature(pid, fixture, v):
  msg = re.sub(r"0x[0-9a-f]+", "0x", v["msg"])
  return {"pid": pid, "fixture": fixture, "kinds": _kinds(v["bundles"]),
          "kinds_str": " ".join(ua[0] + (":" + ua[1] if str(ua[1]).startswith("_grist_") else "") for b in v["bundles"] for ua in b),
          "msg_class": re.sub(r"[\d.]+", "#", msg)[:80], "msg": msg[:300], "bundles": json.dumps(v["bundles"], default=repr),
          "groupby_formula": bool(v.get("gbf"))}


def native_replay(pid, witness_path):
  """Run the witness with plain /venv python; returns (reproduced, text)."""
  cmd = [os.path.join(common.VERIF, "vcheck"), "replay", pid, witness_path]
  p = subprocess.run(cmd, capture_output=True, text=True, timeout=300)
  return p.returncode == 1, (p.stdout + p.stderr)[-800:]


def replay_cmd(pid, path):
  with open(path) as f:
    w = json.load(f)
  res = B.replay(w, {pid})
  hits = [m for (p, m) in res if p == pid]
  if hits:
    print("REPRODUCED property=%s %s" % (pid, hits[0][:500]))
    return 1
  print("not reproduced property=%s" % pid)
  return 0


def run(pid, tier, seed):
  ev = common.Evidence(pid, "exploration", tier, seed)
  shards = plan(pid, tier)
  args = [(fx, mode, k, n, size1, size2, w, pn, seed, common.fit_cap(ms, len(shards), tier), mr) for (fx, mode, k, n, size1, size2, w, pn, ms, mr) in shards]
  results = common.pmap(B.run_shard, args)
  runs = nontriv = 0
  solver_s = 0.0
  queries = 0
  harness = []
  cand = {}
  exhausted = 0
  not_exhausted = []
  for a, (st, r) in zip(args, results):
    if st != "ok":
      harness.append("shard %s failed: %s" % (a[:4], r))
      continue
    runs += r["runs"]
    nontriv += r["nontrivial"]
    solver_s += r["solver_s"]
    queries += r["queries"]
    if r["exhaustive"]:
      exhausted += 1
    else:
      not_exhausted.append({"shard": r["shard"], "runs": r["runs"], "stopped": r["stopped"]})
    for e in r["errors"]:
      harness.append("shard %s: %s" % (a[:4], str(e)[-600:]))
    ev.add_samples(r["samples"][:1], cap=10)
    for o in r["outputs"]:
      for v in o["violations"]:
        if v["pid"] != pid:
          continue
        sig = signature(pid, r["shard"]["fixture"], v)
        key = (tuple(sig["kinds"]), sig["msg_class"], sig["fixture"])
        if key not in cand:
          cand[key] = {"sig": sig, "msg": v["msg"],
                       "witness": {"fixture": r["shard"]["fixture"], "prefix": r["shard"]["prefix"],
                                   "bundles": v["bundles"], "oracle": pid}}
  if os.environ.get("VERIF_DUMP"):
    with open(os.environ["VERIF_DUMP"], "w") as f:
      for key, v in cand.items():
        f.write(json.dumps({"key": key, "msg": v["msg"], "w": v["witness"]}, default=repr) + "\n")
  # replay before reporting
  confirmed = []
  for key, v in list(cand.items())[:40]:
    p = common.save_replay(pid, v["witness"])
    ok, text = native_replay(pid, p)
    if ok:
      confirmed.append(v)
    else:
      harness.append("counterexample did not reproduce natively: %s :: %s" % (p, text[-300:]))
      try:
        os.remove(p)
      except OSError:
        pass
  ev.cov.update({
    "evaluations": runs, "distinct_nontrivial": nontriv,
    "rule": "one evaluation = one concrete run of the real engine on one cube of the hole space "
            "(holes: action kind, table, column, row, payload, name, type, formula, ...); z3 AllSAT with "
            "read-set cube blocking enumerates the cubes, final unsat = every point of the shard's space is "
            "inside an executed cube; non-trivial = the bundle was accepted by the engine (not rejected by "
            "validation); distinct by construction (each run lies in a different cube)",
    "exhaustive": not not_exhausted and not harness,
    "exhaustive_single_action_shards": all(r[1]["exhaustive"] for a, r in zip(args, results)
                                           if r[0] == "ok" and a[3] == 1),
    "mode": "E2-enum",
    "shards": len(args), "shards_exhausted": exhausted, "shards_not_exhausted": not_exhausted[:20],
    "solver": "z3 %s" % __import__("z3").get_version_string(), "solver_queries": queries,
    "solver_s": round(solver_s, 2),
    "oracle": ORACLE_TEXT[pid],
    "functions_executed": common.code_ref(*FILES[pid]),
    "bounds": {"tier": tier, "fixtures": sorted({a[0] for a in args}), "actions_per_history": sorted({a[3] for a in args}),
               "shard_shapes": sorted({"%s/%s/%d actions/pools %s+%s/prefix %d" % (a[0], a[1], a[3], a[4], a[5], a[7]) for a in args}),
               "pools": {k: getattr(F.Pools, k.split("-")[0].upper()) for k in sorted({a[4] for a in args} | {a[5] for a in args})},
               "kinds": sorted({a[2] for a in args}),
               "outside": "documents larger than the fixtures (<= 3 user tables, <= 4 rows), bundles longer than "
                          "the stated number of actions, payloads/names/types/formulas outside the pools, schema "
                          "changes of the manualSort column itself"},
    "candidates": len(cand), "replayed_confirmed": len(confirmed),
  })
  ev.assumptions = [common.SHIM_ASSUMPTION,
                    "cells compared in encoded form with objtypes.equal_encoding semantics (1 == 1.0, NaN == NaN)",
                    "cube generalisation: a run's behaviour depends only on the holes it read through the accessor"]
  return common.report(pid, ev, confirmed, harness)
