"""C04: failed bundles leave no trace.  E2-enum; bundle holes + crash point (target, j, before)."""
import os, json, re, subprocess
import common, enumz3, bundles as B, docfix as F, faults

FILES = ["sandbox/grist/engine.py", "sandbox/grist/docactions.py", "sandbox/grist/useractions.py"]


FAILING = ["UpdateRecord", "{T}", 999, {"{C}": 1}]     # fails in its doc action: record does not exist


def make_body(base, first_kind, mode, size1, targets=("none", "doc", "rebuild")):
  """mode 'fault': one action, crash point (target, j, before) as holes (target none = natural failure);
  mode 'then_fail': the action followed, in the same bundle, by an action that fails naturally, so that
  everything the first action did has to be rolled back."""
  pools1 = F.Pools(size1, kinds=[first_kind])

  def body(h):
    d0 = base.restore()
    uas = [F.gen_action(h, d0, "a0.", pools1)]
    if mode == "then_fail":
      t = d0.user_tables(summaries=False)[0]
      uas.append(["UpdateRecord", t, 999, {d0.columns(t)[0]: 1}])
      fault = {"target": "none"}
      d = d0
    else:
      counts, natural = faults.count_calls(d0, uas)
      target = h.choice("target", list(targets))
      fault = {"target": target}
      if target != "none":
        J = counts[target]
        if J == 0:
          return {"nontrivial": False, "sample": None}
        fault["j"] = h.int("j.%s" % target, 0, J)
        fault["before"] = h.bool("before")
      elif natural is None:
        return {"nontrivial": False, "sample": None}      # succeeded without a fault: nothing to check
      d = base.restore()
    raised, res = faults.run_with_fault(d, uas, fault)
    viol = []
    if res:
      viol.append({"pid": "C04", "kind": res[0], "msg": res[1], "bundles": [uas], "fault": fault})
    return {"nontrivial": raised, "violations": viol,
            "sample": {"bundle": uas, "fault": fault, "raised": raised}}
  return body


def run_shard(fixture, first_kind, mode, size1, seed, max_s):
  B.warm_up()
  d = F.build(fixture)
  targets = ("none", "doc", "rebuild")
  if mode == "fault_doc":
    mode, targets = "fault", ("none", "doc")
  body = make_body(F.Saved(d), first_kind, mode, size1, targets)
  res = enumz3.allsat(body, seed=seed, max_s=max_s)
  return {"shard": {"fixture": fixture, "first_kind": first_kind, "mode": mode, "pools": size1},
          "runs": res.runs, "exhaustive": res.exhaustive, "solver_s": res.solver_s, "queries": res.queries,
          "nontrivial": res.nontrivial, "outputs": res.outputs, "errors": res.errors, "samples": res.samples,
          "stopped": res.stopped}


def plan(tier):
  shards = []
  if tier == "quick":
    for fx in ("basic", "trigger", "summary"):
      for k in F.ALL_KINDS:
        # faults inside rebuild_usercode (mid doc action) only on one fixture in the quick tier
        shards.append((fx, k, "fault" if fx == "summary" else "fault_doc", "micro", None))
        shards.append((fx, k, "then_fail", "small", None))
  else:
    for fx in ("basic", "types", "twoway", "summary", "trigger", "trigger2", "cascade", "views", "lookup", "cycles"):
      for k in F.ALL_KINDS:
        shards.append((fx, k, "fault", "small", 600.0))
        shards.append((fx, k, "then_fail", "med", None))
  return shards


def replay_cmd(pid, path):
  with open(path) as f:
    w = json.load(f)
  d = F.build(w["fixture"])
  raised, res = faults.run_with_fault(d, w["bundles"][0], w.get("fault"))
  if res:
    print("REPRODUCED property=C04 [%s] %s" % (res[0], res[1][:500]))
    return 1
  print("not reproduced property=C04 (raised=%s)" % raised)
  return 0


def run(pid, tier, seed):
  ev = common.Evidence(pid, "exploration", tier, seed)
  pl = plan(tier)
  args = [(fx, k, mode, s1, seed, common.fit_cap(ms, len(pl), tier)) for (fx, k, mode, s1, ms) in pl]
  results = common.pmap(run_shard, args)
  runs = nontriv = queries = 0
  solver_s = 0.0
  harness, cand, not_ex = [], {}, []
  known = common.load_known()
  for a, (st, r) in zip(args, results):
    if st != "ok":
      harness.append("shard %s failed: %s" % (a[:3], str(r)[:1500]))
      continue
    runs += r["runs"]; nontriv += r["nontrivial"]; solver_s += r["solver_s"]; queries += r["queries"]
    if not r["exhaustive"]:
      not_ex.append({"shard": r["shard"], "runs": r["runs"], "stopped": r["stopped"]})
    for e in r["errors"]:
      harness.append("shard %s: %s" % (a[:3], str(e)[-700:]))
    ev.add_samples([s for s in r["samples"] if s][:1], cap=10)
    for o in r["outputs"]:
      for v in o["violations"]:
        msg = re.sub(r"0x[0-9a-f]+", "0x", v["msg"])
        # the part after the exception head identifies what went wrong
        detail = re.sub(r"^bundle raised \w+ \(.*?\)(;| but| and) ?", "", msg, count=1)
        sig = {"pid": pid, "fixture": a[0], "kinds_str": " ".join(u[0] + (":" + u[1] if str(u[1]).startswith("_grist_") else "") for u in v["bundles"][0]),
               "fault": "%s/%s" % (v["fault"].get("target"), "before" if v["fault"].get("before", True) else "after"),
               "kind": v["kind"], "msg": msg[:400], "detail": detail[:300], "bundles": json.dumps(v["bundles"], default=repr)}
        kf = common.match_known(pid, sig, known)
        key = (kf["id"],) if kf else (sig["kinds_str"], sig["fault"], v["kind"], re.sub(r"[\d.]+", "#", detail)[:90], a[0])
        if key not in cand:
          cand[key] = {"sig": sig, "msg": v["msg"],
                       "witness": {"fixture": a[0], "bundles": v["bundles"], "fault": v["fault"], "oracle": pid}}
  if os.environ.get("VERIF_DUMP"):
    with open(os.environ["VERIF_DUMP"], "w") as f:
      for key, v in cand.items():
        f.write(json.dumps({"key": key, "msg": v["msg"], "w": v["witness"]}, default=repr) + "\n")
  confirmed = []
  for key, v in list(cand.items())[:60]:
    p = common.save_replay(pid, v["witness"])
    rp = subprocess.run([os.path.join(common.VERIF, "vcheck"), "replay", pid, p], capture_output=True, text=True, timeout=300)
    if rp.returncode == 1:
      confirmed.append(v)
    else:
      harness.append("counterexample did not reproduce natively: %s :: %s" % (p, (rp.stdout + rp.stderr)[-300:]))
      os.remove(p)
  ev.cov.update({
    "evaluations": runs, "distinct_nontrivial": nontriv,
    "rule": "one evaluation = one cube of (bundle holes, crash target, crash index j, before/after) run on the real engine "
            "(plus one fault-free run that measures J, the number of apply_doc_action / rebuild_usercode calls the bundle "
            "makes); target=none covers natural failures (validation errors, a later action failing after earlier ones "
            "succeeded); non-trivial = apply_user_actions raised, so the no-trace oracle was evaluated",
    "exhaustive": not not_ex and not harness, "mode": "E2-enum",
    "shards": len(args), "shards_not_exhausted": not_ex[:20],
    "solver": "z3 %s" % __import__("z3").get_version_string(), "solver_queries": queries, "solver_s": round(solver_s, 2),
    "oracle": "if apply_user_actions raises: snapshot of all tables == pre-state, engine.schema == build_schema(metadata), "
              "assert_schema_consistent passes, Calculate emits no stored/undo/calc actions and changes nothing",
    "fault_model": "one exception at a doc-action boundary (before the j-th Engine.apply_doc_action runs, or right after it "
                   "returned) or at the j-th Engine.rebuild_usercode call (inside a schema doc action); all j < J enumerated; "
                   "NOT modelled: an exception between two cell writes of one BulkUpdateRecord, faults during the rollback itself",
    "functions_executed": common.code_ref(*FILES),
    "bounds": {"tier": tier, "shard_shapes": sorted({"%s/%s/pools %s" % (a[0], a[2], a[3]) for a in args}),
               "pools": {k: getattr(F.Pools, k.upper()) for k in sorted({a[3] for a in args})}},
    "candidates": len(cand), "replayed_confirmed": len(confirmed),
  })
  ev.assumptions = [common.SHIM_ASSUMPTION, "cells compared in encoded form (1 == 1.0)",
                    "cube generalisation: a run's behaviour depends only on the holes it read"]
  return common.report(pid, ev, confirmed, harness)
