"""C13 (E2 part): lookupRecords / lookupOne return exactly the matching rows in documented order, also
after edits (index maintenance).  Cell contents, the probe key, the lookup template and the edit are holes."""
import sys, functools
from numbers import Number
import os
import common, enumrun, docfix as F, bundles as B
QUICK = os.environ.get("VERIF_TIER", "quick") != "thorough"

SPECS = [("", None), ("order_by='N'", ("N",)), ("order_by='-N'", ("-N",)), ("order_by=('S','-N')", ("S", "-N")), ("order_by=None", ()),
         ("sort_by='N'", "SORTBY:N"), ("sort_by='-S'", "SORTBY:-S"), ("order_by='id'", "ID"), ("order_by=('S','id')", "S,ID"),
         ("order_by='-manualSort'", ("-manualSort",))]
KEYS = [("K=$Q", lambda row, q: row["K"] == q), ("K=$Q, S='a'", lambda row, q: row["K"] == q and row["S"] == 'a'),
        ("CL=CONTAINS($Q)", lambda row, q: isinstance(row["CL"], list) and q in row["CL"][1:]),
        ("CL=CONTAINS($Q, match_empty='')", lambda row, q: (isinstance(row["CL"], list) and q in row["CL"][1:]) or (row["CL"] in (None, ['L']) and q == '')),
        # an Any-typed key column whose cells may hold unhashable (list) values: such a row matches no text probe
        ("A=$Q", lambda row, q: row["A"] == q),
        # a formula key column whose cell is an error where N is 0: an error cell equals no key
        ("KF=$Q", lambda row, q: row["KF"] == q)]
AKEY = 4
AV = ["x", "y", ["L", "x"], 1]
KV = ["x", "y", ""]
SV = ["a", "b"]
NV = [1, 2, None, "alt"]
CLV = [None, ["L", "x"], ["L", "y", "x"], ["L"], ["L", "x", "x"], "x"]
EDITS = [None, ("UpdateRecord", "D", 1, {"K": "y"}), ("UpdateRecord", "D", 3, {"N": 0}), ("RemoveRecord", "D", 2),
         ("AddRecord", "D", None, {"K": "x", "S": "a", "N": 2, "CL": ["L", "x"]}), ("UpdateRecord", "D", 3, {"CL": ["L", "y"]}),
         ("UpdateRecord", "D", 2, {"manualSort": 0.5}), ("UpdateRecord", "D", 3, {"S": "c"}), ("UpdateRecord", "D", 1, {"K": "x"}),
         ("BulkUpdateRecord", "D", [1, 2], {"N": [5, 5]}),
         ("UpdateRecord", "D", 3, {"A": ["L", "a", "x"]}), ("UpdateRecord", "D", 1, {"A": ["L", "x"]}), ("UpdateRecord", "D", 1, {"A": "x"}),
         ("BulkUpdateRecord", "D", [1, 3], {"A": [["L", "x"], {"a": 1}]}),
         # the importer's wholesale replacement: rows that disappear, rows that stay with other contents, new rows
         ("ReplaceTableData", "D", [1, 5], {"K": ["x", "x"], "S": ["a", "b"], "N": [4, 1], "CL": [["L", "x"], None], "A": ["x", "y"]}),
         ("ReplaceTableData", "D", [], {}), ("ReplaceTableData", "D", [2, 3, 4], {"K": ["x", "y", "x"], "S": ["b", "a", "a"], "N": [1, 1, 0]})]
warm_up = B.warm_up
_base = {}


def base(ki):
  if ki not in _base:
    d = F.Doc(replica=False)
    d.apply(["AddTable", "D", [{"id": "K", "type": "Text", "isFormula": False}, {"id": "S", "type": "Text", "isFormula": False},
                               {"id": "N", "type": "Int", "isFormula": False}, {"id": "CL", "type": "ChoiceList", "isFormula": False},
                               {"id": "A", "type": "Any", "isFormula": False},
                               {"id": "KF", "type": "Any", "isFormula": True, "formula": "$K if $N != 0 else 1/0"}]])
    cols = [{"id": "Q", "type": "Text", "isFormula": False}]
    for i, (k, _) in enumerate(KEYS):
      if i != ki:
        continue                     # one document per key shape: only its 20 lookup formulas are evaluated per run
      for j, (s, _) in enumerate(SPECS):
        args = ", ".join(x for x in (k, s) if x)
        cols.append({"id": "F%d_%d" % (i, j), "type": "Any", "isFormula": True, "formula": "list(D.lookupRecords(%s).id)" % args})
        cols.append({"id": "O%d_%d" % (i, j), "type": "Any", "isFormula": True, "formula": "D.lookupOne(%s).id" % args})
    d.apply(["AddTable", "P", cols])
    d.apply(["BulkAddRecord", "D", [None] * 3, {"K": ["x", "y", "x"], "S": ["a", "a", "b"], "N": [1, 2, 3], "CL": [None, None, None], "A": ["x", "y", "x"]}])
    d.apply(["BulkAddRecord", "P", [None] * 3, {"Q": ["x", "y", ""]}])
    _base[ki] = F.Saved(d)
  return _base[ki]


def lt(a, b):
  try:
    return a < b
  except TypeError:
    af = ((0 if a is None else 1), (0 if isinstance(a, Number) else 1), type(a).__name__)
    bf = ((0 if b is None else 1), (0 if isinstance(b, Number) else 1), type(b).__name__)
    return af < bf


def expected(rows, pred, q, spec):
  m = [r for r in rows if pred(r, q)]
  if spec is None or spec == "ID":
    cols = []
  elif spec == "S,ID":
    cols = ["S"]
  elif isinstance(spec, str) and spec.startswith("SORTBY:"):
    cols = [spec[7:]]
  else:
    cols = list(spec)
    if "manualSort" not in [c.lstrip("-") for c in cols]:
      cols.append("manualSort")

  def cmp(a, b):
    for c in cols:
      sign = -1 if c.startswith("-") else 1
      c = c.lstrip("-")
      if lt(a[c], b[c]):
        return -sign
      if lt(b[c], a[c]):
        return sign
    return a["id"] - b["id"]
  return [r["id"] for r in sorted(m, key=functools.cmp_to_key(cmp))]


def check(d, ki):
  data = d.e.fetch_table("D")
  rows = [dict(id=r, **{c: F.enc(data.columns[c][i]) for c in data.columns}) for i, r in enumerate(data.row_ids)]
  p = d.e.fetch_table("P")
  k, pred = KEYS[ki]
  for pi, q in enumerate(p.columns["Q"]):
    for j, (s, spec) in enumerate(SPECS):
      got = F.enc(p.columns["F%d_%d" % (ki, j)][pi])
      got1 = F.enc(p.columns["O%d_%d" % (ki, j)][pi])
      exp = expected(rows, pred, q, spec)
      g = got[1:] if isinstance(got, list) and got and got[0] == 'L' else got
      if g != exp:
        tag = ""
        if isinstance(g, list) and all(isinstance(x, int) for x in g) and not (set(exp) - set(g)):
          byid = {r["id"]: r for r in rows}
          extra = [x for x in g if x not in exp]
          if extra and all(x in byid and isinstance(byid[x].get("KF"), list) and byid[x]["KF"][:1] == ["E"] for x in extra) and k.startswith("KF="):
            tag = "[only rows whose key cell is an error are returned in excess] "
        return "%slookupRecords(%s%s) with Q=%r returned %s, a filter + stable sort gives %s (rows %s)" % (tag, k, ", " + s if s else "", q, g, exp, rows)
      if got1 != (exp[0] if exp else 0):
        return "lookupOne(%s%s) with Q=%r returned %s, expected %s" % (k, ", " + s if s else "", q, got1, exp[0] if exp else 0)
  return None


def judge(ki, cells, ei):
  d = base(ki).restore()
  try:
    d.apply(["BulkUpdateRecord", "D", [1, 2, 3], cells])
  except Exception as ex:
    return "setup raised %r" % (ex,), False
  r = check(d, ki)
  if r:
    return r, True
  ed = EDITS[ei]
  if ed:
    try:
      d.apply(list(ed))
    except Exception:
      return None, True
    r = check(d, ki)
    if r:
      return "after %s: %s" % (list(ed), r), True
  return None, True


def make_body(shard):
  ki, ei = shard

  def body(h):
    # the cells of the column(s) the key shape reads are holes, the others are fixed (S and N feed the order specifications)
    cl_shape, a_shape = ki in (2, 3), ki == AKEY
    cells = {"K": ([h.choice("k%d" % i, KV) for i in range(2)] if not (cl_shape or a_shape) else ["x", "y"]) + ["x"],
             "S": ["a", h.choice("s1", SV), "b" if QUICK else h.choice("s2", SV)],
             "N": [h.choice("n%d" % i, NV[:3] if QUICK else NV) for i in range(2)] + [2],
             "CL": ([h.choice("cl%d" % i, CLV[:4] if QUICK else CLV) for i in range(2)] if cl_shape else [None, None]) + [["L", "x"]],
             "A": ([h.choice("a%d" % i, AV) for i in range(2)] if a_shape else ["x", "y"]) + ["x"]}
    msg, ok = judge(ki, cells, ei)
    w = {"key": ki, "cells": cells, "edit": ei}
    return {"nontrivial": ok, "violations": ([{"msg": msg, "witness": w}] if msg else []), "sample": w}
  return body


def SHARDS(tier):
  cap = 30.0 if tier == "quick" else 400.0
  # quick: the edits that each exercise a different index-maintenance path; thorough: all of them
  edits = [0, 1, 2, 3, 4, 5, 6, 9, 10, 12, 14, 16] if tier == "quick" else range(len(EDITS))
  return [((ki, ei), cap) for ki in range(len(KEYS)) for ei in edits]


def replay(w):
  m, _ = judge(w["key"], w["cells"], w["edit"])
  return [m] if m else []


META = {
  "files": ["sandbox/grist/table.py", "sandbox/grist/lookup.py", "sandbox/grist/sort_key.py", "sandbox/grist/twowaymap.py", "sandbox/grist/functions/lookup.py"],
  "oracle": "for each of 5 key shapes x 10 order specifications x 3 probe values: lookupRecords ids == naive filter of fetch_table + "
            "stable sort by the documented rule (order_by columns, '-' descending, then manualSort unless 'id' given, then row id; "
            "sort_by: its column then row id; mixed types by the documented fallback), lookupOne == first or 0; re-checked after an edit",
  "rule": "one evaluation = one (cell contents of 2 rows x 4 columns, key shape, edit) cube; each checks 30 lookups and 30 lookupOnes "
          "before and after the edit; non-trivial = setup applied",
  "bounds": {"A (Any column, may hold lists)": AV, "K": KV, "S": SV, "N": NV, "CL": CLV, "edits": [list(e) if e else None for e in EDITS], "key shapes": [k for k, _ in KEYS],
             "order specs": [s for s, _ in SPECS], "outside": "NaN keys, mutually incomparable sort values beyond None/number/str"},
}


def run(pid, tier, seed):
  return enumrun.run(pid, tier, seed, sys.modules[__name__])


def replay_cmd(pid, path):
  return enumrun.replay_cmd(pid, path, sys.modules[__name__])
