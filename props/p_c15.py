"""C15: trigger formulas recalculate exactly when configured (E2-enum + a fires/does-not-fire reference model)."""
import sys
import common, enumrun, docfix as F, bundles as B

TRIG = F.TRIG          # name -> (recalcWhen, deps)
VALS = [1, 7, None] if __import__('os').environ.get('VERIF_TIER') != 'thorough' else [1, 7, 0, None]
COLS = ["A", "B", "F"] + list(TRIG)
warm_up = B.warm_up
_base = []


def base():
  if not _base:
    _base.append(F.Saved(F.build("trigger", replica=False)))
  return _base[0]


def state(d):
  td = d.e.fetch_table("T")
  return {r: {c: td.columns[c][i] for c in COLS} for i, r in enumerate(td.row_ids)}


def predict_update(st, rows, vals):
  """{(row, col): 'must'|'mustnot'|'either'|('set', v)|('setfire', v)} for one [Bulk]UpdateRecord"""
  out = {}
  for r in st:
    for c, (when, deps) in TRIG.items():
      if r not in rows:
        out[(r, c)] = "mustnot"
        continue
      i = rows.index(r)
      changed = {col for col, v in vals.items() if st[r][col] != v[i]}
      written = set(vals)
      if "A" in changed:
        changed.add("F")
      explicit = c in vals
      selfdep = c in deps
      if when == 1:
        fire = "mustnot"
      elif when == 2:
        fire = "must" if changed - {"F"} else "mustnot"
      else:
        dep_changed = bool(set(deps) & changed)
        # F is recomputed in a row whenever A is written there (even with an unchanged value in a bulk update)
        dep_written = bool(set(deps) & (written | ({"F"} if "A" in written else set())))
        fire = "must" if dep_changed else ("either" if dep_written else "mustnot")
      if explicit and not selfdep:
        out[(r, c)] = ("set", vals[c][i])
      elif explicit and selfdep:
        out[(r, c)] = ("setfire", vals[c][i])
      else:
        out[(r, c)] = fire
  return out


def judge_update(rows, vals):
  d = base().restore()
  st = state(d)
  pred = predict_update(st, rows, vals)
  ua = ["BulkUpdateRecord", "T", rows, vals] if len(rows) > 1 else ["UpdateRecord", "T", rows[0], {k: v[0] for k, v in vals.items()}]
  try:
    d.apply(ua)
  except Exception:
    return None, False
  st2 = state(d)
  for (r, c), p in pred.items():
    before, after = st[r][c], st2[r][c]
    inc = (before or 0) + 1
    if p == "must":
      ok = after == inc
    elif p == "mustnot":
      ok = after == before
    elif p == "either":
      ok = after in (before, inc)
    elif p[0] == "set":
      # an explicit value equal to the current one is trimmed from the action, i.e. not supplied
      ok = after == p[1] or (p[1] == before and after == inc)
    else:
      ok = after in (p[1], (p[1] or 0) + 1)
    if not ok:
      return "%s: trigger column %s (recalcWhen=%s, deps=%s) row %s: %r -> %r, expected %s" % (ua, c, TRIG[c][0], TRIG[c][1], r, before, after, p), True
  return None, True


def judge_add(vals):
  d = base().restore()
  ua = ["AddRecord", "T", None, dict(vals)]
  try:
    rid = d.apply(ua).retValues[0]
  except Exception:
    return None, False
  row = state(d)[rid]
  for c, (when, deps) in TRIG.items():
    got = row[c]
    if c in vals:
      exp = (vals[c], (vals[c] or 0) + 1) if c in deps else (vals[c],)      # kept unless the column depends on itself
    elif when == 1:
      exp = (0, None)                  # NEVER: type default
    else:
      exp = (1,)                       # gets the formula's value: (None or 0) + 1
    if got not in exp:
      return "%s: new record's %s (recalcWhen=%s, deps=%s) is %r, expected one of %s" % (ua, c, when, deps, got, exp), True
  return None, True


def judge_schema(action):
  """schema changes to dependencies never trigger recalculation"""
  d = base().restore()
  st = state(d)
  try:
    d.apply(action)
  except Exception:
    return None, False
  tname = "T" if "T" in d.e.tables else [t for t in d.user_tables() if "T0" in d.e.schema[t].columns][0]
  td = d.e.fetch_table(tname)
  for c in TRIG:
    if c in td.columns:
      for i, r in enumerate(td.row_ids):
        if td.columns[c][i] != st[r][c]:
          return "%s changed trigger column %s row %s: %r -> %r" % (action, c, r, st[r][c], td.columns[c][i]), True
  return None, True


SCHEMA_ACTS = [["RenameColumn", "T", "A", "A2"], ["ModifyColumn", "T", "A", {"type": "Numeric"}], ["ModifyColumn", "T", "B", {"type": "Text"}],
               ["ModifyColumn", "T", "F", {"formula": "$A * 10 + 0"}], ["RenameColumn", "T", "F", "F2"], ["AddColumn", "T", "Z", {"type": "Int"}],
               ["RemoveColumn", "T", "B"], ["RenameTable", "T", "T2"], ["ModifyColumn", "T", "B", {"type": "Numeric"}]]
UPD_COLS = ["A", "B", "T1", "T3", "T4", "T5", "T6", "T0", "T2"]


def make_body(shard):
  kind = shard[0]

  def body(h):
    if kind == "update":
      c1 = shard[1]
      vals = {c1: [h.choice("v1", VALS)]}
      if h.bool("two"):
        c2 = h.choice("c2", [c for c in UPD_COLS if c != c1])
        vals[c2] = [h.choice("v2", VALS)]
      rows = [h.choice("row", [1, 2])]
      if h.bool("bulk"):
        rows = [1, 2]
        vals = {c: v + [h.choice("w_" + c, VALS)] for c, v in vals.items()}
      msg, ok = judge_update(rows, vals)
      w = {"kind": "update", "rows": rows, "vals": vals}
    elif kind == "add":
      vals = {}
      for c in shard[1]:
        vals[c] = h.choice("v_" + c, VALS)
      msg, ok = judge_add(vals)
      w = {"kind": "add", "vals": vals}
    else:
      a = SCHEMA_ACTS[h.int("act", 0, len(SCHEMA_ACTS))]
      msg, ok = judge_schema(a)
      w = {"kind": "schema", "action": a}
    return {"nontrivial": ok, "violations": ([{"msg": msg, "witness": w}] if msg else []), "sample": w}
  return body


def SHARDS(tier):
  out = [(("update", c), None) for c in UPD_COLS]
  adds = [(), ("A",), ("T1",), ("A", "T1"), ("T5",), ("A", "T5"), ("T3",), ("T4",), ("B", "T6"), ("T0",), ("T2",), ("A", "B")]
  out += [(("add", a), None) for a in adds]
  out.append((("schema",), None))
  return out


def replay(w):
  if w["kind"] == "update":
    m, _ = judge_update(w["rows"], w["vals"])
  elif w["kind"] == "add":
    m, _ = judge_add(w["vals"])
  else:
    m, _ = judge_schema(w["action"])
  return [m] if m else []


META = {
  "files": ["sandbox/grist/engine.py", "sandbox/grist/docactions.py", "sandbox/grist/useractions.py", "sandbox/grist/relation.py", "sandbox/grist/docmodel.py"],
  "oracle": "counter-style trigger formulas '(value or 0) + 1' make each firing observable; a 40-line model says per row and column "
            "whether an update must / must not / may fire (DEFAULT: a recalcDeps cell changed value; MANUAL_UPDATES: the user's update "
            "changed the row; NEVER: never), that an explicit value is kept unless the column depends on itself, what a new record "
            "gets, and that schema changes to dependencies fire nothing",
  "rule": "one evaluation = one user action (update of 1-2 columns on 1-2 rows / add with explicit values / schema change) on the "
          "restored 'trigger' fixture; non-trivial = the action was accepted",
  "bounds": {"trigger columns": {k: list(v) for k, v in TRIG.items()}, "values": VALS, "updated columns": UPD_COLS, "schema actions": SCHEMA_ACTS},
}


def run(pid, tier, seed):
  return enumrun.run(pid, tier, seed, sys.modules[__name__])


def replay_cmd(pid, path):
  return enumrun.replay_cmd(pid, path, sys.modules[__name__])
