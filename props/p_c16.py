"""C16: renames never change formula results (E2-enum; programs enumerated: which entity, which new name,
which rename path are the solver variables)."""
import sys, io, tokenize
import common, enumrun, docfix as F, bundles as B

FORMS = [
 "$Name", "rec.Name + 'x'", "$R.Name", "rec.R.Name", "$L.Name", "[r.Name for r in $L]", "sum(r.N for r in $L)",
 "A.lookupRecords(Name=$T).N", "A.lookupOne(Name=$T).N", "A.lookupRecords(K=$T, order_by='N').Name", "A.lookupRecords(K=$T, order_by='-N').Name",
 "A.lookupRecords(K=$T, order_by=('K', '-N')).Name", "A.lookupRecords(K=$T, sort_by='N').Name", "[a.Name for a in A.all]", "A.all.N",
 "len(A.lookupRecords(K=$T))", "A.lookupOne(Name=$T).K or 'none'", "PREVIOUS(rec, order_by='T').T if PREVIOUS(rec, order_by='T') else None",
 "RANK(rec, order_by='T')", "NEXT(rec, group_by='T', order_by='id').id", "$R.N + ($R.N or 0)", "'$Name' + \"$N\"  # $Name", "max(a.N for a in A.all if a.K == $T)",
 "A.lookupRecords(K=rec.T).find.ge(1).Name if A.lookupRecords(K=rec.T, order_by='N') else ''", "B.lookupRecords(R=$R).T", "B.lookupRecords(L=CONTAINS($R)).T",
 "f'{$R.Name}-{rec.T}'", "f'''{$T}:\n{$R.Name} {rec.T}'''",
]
NAMES = ["Z", "def", "n", "a b", "Name2", "R", "N", "T", "id", "é", "class", "", "1x", "_p"]
TARGETS = [("A", "Name"), ("A", "K"), ("A", "N"), ("B", "R"), ("B", "L"), ("B", "T"), ("A", None), ("B", None),
           ("C", "V"), ("C", "Name2"), ("C", None), ("B", "RC")]
# an earlier schema change in its own bundle (the judged rename is the second step of a history): renames that rewrite no
# formula text, a rename of the table / column the second step touches, a retargeted reference
PRE = [None, ("RenameTable", "C", "C9"), ("RenameTable", "A", "A9"), ("RenameColumn", "C", "V", "W9"), ("RenameColumn", "B", "T", "T9"),
       ("RenameColumn", "B", "RC", "RC9"), ("ModifyColumn", "B", "RC", {"type": "Ref:A"})]
PATHS = ["action", "metadata colId/tableId", "label"]
_base = []
warm_up = B.warm_up


def base():
  if not _base:
    d = F.Doc(replica=False)
    d.apply(["AddTable", "A", [{"id": "Name", "type": "Text", "isFormula": False}, {"id": "K", "type": "Text", "isFormula": False},
                               {"id": "N", "type": "Int", "isFormula": False}]])
    cols = [{"id": "R", "type": "Ref:A", "isFormula": False}, {"id": "L", "type": "RefList:A", "isFormula": False},
            {"id": "T", "type": "Text", "isFormula": False}]
    bf = [f for f in FORMS if "$Name" not in f and "rec.Name" not in f and '$N"' not in f]
    af = [f for f in FORMS if f not in bf]
    for i, f in enumerate(bf):
      cols.append({"id": "F%d" % i, "type": "Any", "isFormula": True, "formula": f})
    # C has data columns only and no formula mentions it by name: it is reached through $RC.<col> chains only
    d.apply(["AddTable", "C", [{"id": "Name2", "type": "Text", "isFormula": False}, {"id": "V", "type": "Int", "isFormula": False}]])
    cols.append({"id": "RC", "type": "Ref:C", "isFormula": False})
    for i, f in enumerate(["$RC.V", "$RC.Name2 + '!'", "rec.RC.V + len($RC.Name2)"]):
      cols.append({"id": "H%d" % i, "type": "Any", "isFormula": True, "formula": f})
    d.apply(["AddTable", "B", cols])
    d.apply(["BulkAddRecord", "C", [None] * 2, {"Name2": ["p", "q"], "V": [10, 20]}])
    for i, f in enumerate(af):
      d.apply(["AddColumn", "A", "G%d" % i, {"type": "Any", "isFormula": True, "formula": f}])
    d.apply(["BulkAddRecord", "A", [None] * 3, {"Name": ["a", "b", "x"], "K": ["x", "y", "x"], "N": [1, 2, 3]}])
    d.apply(["BulkAddRecord", "B", [None] * 3, {"R": [1, 2, 3], "L": [["L", 1, 2], ["L", 3], None], "T": ["x", "a", "y"], "RC": [1, 2, 0]}])
    _base.append(F.Saved(d))
  return _base[0]


def fvals(d):
  out = {}
  for t in d.user_tables():
    tab = d.e.tables[t]
    data = d.e.fetch_table(t)
    for c in data.columns:
      if tab.get_column(c).is_formula():
        out[(t, c)] = [F.enc(v) for v in data.columns[c]]
  return out


def formulas(d):
  data = d.e.fetch_table("_grist_Tables_column")
  return {r: f for r, f in zip(data.row_ids, data.columns["formula"]) if f}


def toks(s):
  try:
    return [(t.type, t.string) for t in tokenize.generate_tokens(io.StringIO(s.replace("$", "DOLLAR_")).readline)
            if t.type not in (tokenize.NL, tokenize.NEWLINE, tokenize.ENDMARKER)]
  except Exception:
    return None


def judge(ti, ni, pi, pre=0):
  t, c = TARGETS[ti]
  new = NAMES[ni]
  d = base().restore()
  if PRE[pre]:
    ua = PRE[pre]
    try:
      d.apply(list(ua))
    except Exception:
      return None, False
    if ua[0] == "RenameTable" and ua[1] == t:
      t = ua[2]
    elif ua[0] == "RenameColumn" and (ua[1], ua[2]) == (t, c):
      c = ua[3]
  f0, v0 = formulas(d), fvals(d)
  try:
    if c is None:
      if pi == 0:
        ret = d.apply(["RenameTable", t, new]).retValues[0]
      elif pi == 1:
        ref = d.tableref(t)
        d.apply(["UpdateRecord", "_grist_Tables", ref, {"tableId": new}])
        tt = d.e.fetch_table("_grist_Tables")
        ret = tt.columns["tableId"][tt.row_ids.index(ref)]
      else:
        return None, False
    else:
      ref = d.colref(t, c)
      if pi == 0:
        ret = d.apply(["RenameColumn", t, c, new]).retValues[0]
      else:
        d.apply(["UpdateRecord", "_grist_Tables_column", ref, {"colId": new} if pi == 1 else {"label": new}])
        cols = d.e.fetch_table("_grist_Tables_column")
        ret = cols.columns["colId"][cols.row_ids.index(ref)]
  except Exception:
    return None, False

  def key(k):
    tt, cc = k
    if c is None and tt == t:
      tt = ret
    elif tt == t and cc == c:
      cc = ret
    return (tt, cc)
  v1 = fvals(d)
  f1 = formulas(d)
  def _same(new_, old_):
    # a cell that already was an error before the rename (e.g. it names an attribute that does not exist) is not judged: giving
    # another column that name legitimately changes it
    if not (isinstance(new_, list) and isinstance(old_, list) and len(new_) == len(old_)):
      return F.eq(new_, old_)
    return all((isinstance(o, list) and o[:1] == ["E"]) or F.eq(n, o) for n, o in zip(new_, old_))
  for k, v in v0.items():
    if not _same(v1.get(key(k)), v):
      ref_ = None
      return ("rename %s.%s -> %r via %s changed formula results: %s.%s %s -> %s" % (t, c, new, PATHS[pi], k[0], k[1], v, v1.get(key(k))),
              True, {"col": "%s.%s" % k})
  for r in f0:
    if f0[r] != f1.get(r):
      a, b = toks(f0[r]), toks(f1.get(r, ""))
      if a is None or b is None or len(a) != len(b) or any(
          x[0] != y[0] or (x[1] != y[1] and x[0] not in (tokenize.NAME, tokenize.STRING, tokenize.FSTRING_MIDDLE if hasattr(tokenize, "FSTRING_MIDDLE") else -1))
          for x, y in zip(a, b)):
        return "rename %s.%s -> %r via %s rewrote more than name tokens: %r -> %r" % (t, c, new, PATHS[pi], f0[r], f1.get(r)), True, {}
  return None, True


def make_body(shard):
  ti, pi = shard

  def body(h):
    ni = h.int("name", 0, len(NAMES))
    pre = h.int("pre", 0, len(PRE))
    res = judge(ti, ni, pi, pre)
    msg, ok = res[0], res[1]
    if msg and pre:
      msg = "after %s: %s" % (list(PRE[pre]), msg)
    w = {"target": ti, "name": ni, "path": pi, "pre": pre}
    viol = []
    if msg:
      d = base().restore()
      info = res[2] if len(res) > 2 else {}
      formula = ""
      if info.get("col"):
        tt, cc = info["col"].split(".")
        try:
          ref = d.colref(tt, cc)
          formula = formulas(d).get(ref, "")
        except Exception:
          pass
      viol.append({"msg": msg, "witness": w, "sig": {"formula": formula, "target": "%s.%s" % TARGETS[ti]}})
    return {"nontrivial": ok, "violations": viol, "sample": {"target": TARGETS[ti], "name": NAMES[ni], "path": PATHS[pi], "pre": PRE[pre]}}
  return body


def SHARDS(tier):
  return [((ti, pi), None) for ti in range(len(TARGETS)) for pi in range(len(PATHS))]


def replay(w):
  res = judge(w["target"], w["name"], w["path"], w.get("pre", 0))
  return [res[0]] if res[0] else []


META = {
  "files": ["sandbox/grist/useractions.py", "sandbox/grist/codebuilder.py", "sandbox/grist/textbuilder.py", "sandbox/grist/gencode.py",
            "sandbox/grist/identifiers.py"],
  "oracle": "every formula column holds the same values before and after the rename (columns keyed through the rename); a formula "
            "whose text changed differs from the old text only in NAME / STRING tokens",
  "rule": "one evaluation = one (earlier schema change, entity, new name, rename path) cube on a restored three-table document with %d formula "
          "shapes; non-trivial = the rename was accepted" % (len(FORMS) + 3),
  "bounds": {"earlier schema change (own bundle)": [list(x) if x else None for x in PRE], "formula shapes": FORMS + ["$RC.V", "$RC.Name2 + '!'", "rec.RC.V + len($RC.Name2)"], "new names": NAMES, "entities": [list(x) for x in TARGETS], "paths": PATHS},
  "assumptions": ["formula text is enumerated; the offset arithmetic behind the rewriting is decided symbolically in C37"],
}


def run(pid, tier, seed):
  return enumrun.run(pid, tier, seed, sys.modules[__name__])


def replay_cmd(pid, path):
  return enumrun.replay_cmd(pid, path, sys.modules[__name__])
