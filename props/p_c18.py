"""C18: circular references terminate and are reported on the cycle (E2-enum: adjacency bits and the
evaluation order are holes; a run that does not terminate is a violation)."""
import sys, math
import common, enumrun, docfix as F
import objtypes

HANG_IS_VIOLATION = True


def reach(adj, n):
  r = [[bool(adj[i][j]) for j in range(n)] for i in range(n)]
  for k in range(n):
    for i in range(n):
      for j in range(n):
        r[i][j] = r[i][j] or (r[i][k] and r[k][j])
  return r


def kth_permutation(items, k):
  items = list(items)
  out = []
  k = k % math.factorial(len(items)) if items else 0
  while items:
    f = math.factorial(len(items) - 1)
    out.append(items.pop(k // f))
    k %= f
  return out


def judge(n, adj, perm, via_lookup, edit=None):
  cols = ["C%d" % i for i in range(n)]
  d = F.Doc(replica=False)
  e = d.e
  orig = e._make_sorted_work_items

  def wrapped(nodes):
    items = orig(nodes)
    user = [w for w in items if w.node.table_id == "T" and w.node.col_id in cols]
    rest = [w for w in items if w not in user]
    return rest + kth_permutation(user, perm)
  e._make_sorted_work_items = wrapped
  spec = [{"id": "D", "type": "Int", "isFormula": False}]
  for i in range(n):
    terms = ["$D + %d" % (i + 1)]
    for j in range(n):
      if adj[i][j]:
        # the last column may reach its dependencies through a lookup of the same row
        terms.append(("T.lookupOne(id=$id).%s" % cols[j]) if (via_lookup and i == n - 1) else "$%s" % cols[j])
    spec.append({"id": cols[i], "type": "Any", "isFormula": True, "formula": " + ".join(terms)})
  try:
    d.apply(["AddTable", "T", spec])
    d.apply(["BulkAddRecord", "T", [None, None], {"D": [10, 20]}])
  except Exception as ex:
    return "recalculation raised %s: %s" % (type(ex).__name__, str(ex)[:200])
  def formula(i, row_):
    terms = ["$D + %d" % (i + 1)]
    for j in range(n):
      if row_[j]:
        terms.append(("T.lookupOne(id=$id).%s" % cols[j]) if (via_lookup and i == n - 1) else "$%s" % cols[j])
    return " + ".join(terms)
  m = _verdict(e, cols, adj, n, [10, 20], "")
  if m:
    return m
  if edit is not None:
    # second bundle: one column gets a new set of references (cycles appear, change or are broken)
    k, mask = edit
    adj = [list(r_) for r_ in adj]
    adj[k] = [(mask >> j) & 1 for j in range(n)]
    try:
      d.apply(["ModifyColumn", "T", cols[k], {"formula": formula(k, adj[k])}])
    except Exception as ex:
      return "changing the formula of %s raised %s: %s" % (cols[k], type(ex).__name__, str(ex)[:200])
    m = _verdict(e, cols, adj, n, [10, 20], "after %s := %r: " % (cols[k], formula(k, adj[k])))
    if m:
      return m
  # a later edit still works
  try:
    d.apply(["UpdateRecord", "T", 1, {"D": 11}])
  except Exception as ex:
    return "a later edit raised %s: %s" % (type(ex).__name__, str(ex)[:200])
  return _verdict(e, cols, adj, n, [11, 20], "after a data edit: ")


def _verdict(e, cols, adj, n, dvals, pfx):
  td = e.fetch_table("T")
  r = reach(adj, n)
  for i in range(n):
    for row, dv in enumerate(dvals):
      v = td.columns[cols[i]][row]
      if r[i][i]:
        if not (isinstance(v, objtypes.RaisedException) and v._name == "CircularRefError"):
          return pfx + "%s row %d depends on itself but holds %r instead of CircularRefError" % (cols[i], row + 1, F.enc(v))
      elif not any(r[i][k] and r[k][k] for k in range(n)):
        def val(i):
          return dv + i + 1 + sum(val(j) for j in range(n) if adj[i][j])
        if v != val(i):
          return pfx + "%s row %d neither lies on nor depends on a cycle: expected %s, got %r" % (cols[i], row + 1, val(i), F.enc(v))
  return None


def _decode(n, h_get):
  return [[h_get("e%d%d" % (i, j)) for j in range(n)] for i in range(n)]


def make_body(shard):
  n, first_row, via_lookup = shard[:3]
  edit_mode = shard[3] if len(shard) > 3 else None

  def body(h):
    adj = [[0] * n for _ in range(n)]
    for j in range(n):
      adj[0][j] = (first_row >> j) & 1
    for i in range(1, n):
      for j in range(n):
        adj[i][j] = h.int("e%d%d" % (i, j), 0, 2)
    edit = None
    if edit_mode:
      perm = h.int("perm", 0, math.factorial(n)) if edit_mode == "full" else 0
      edit = (h.int("editcol", 0, n), h.int("editmask", 0, 2 ** n) if edit_mode == "full" else 0)
    else:
      perm = h.int("perm", 0, math.factorial(n))
    msg = judge(n, adj, perm, via_lookup, edit)
    w = {"n": n, "adj": adj, "perm": perm, "via_lookup": via_lookup, "edit": edit}
    return {"nontrivial": any(any(r) for r in adj), "violations": ([{"msg": msg, "witness": w}] if msg else []), "sample": w}
  return body


def hang_witness(shard, trace):
  n, first_row, via_lookup = shard[:3]
  adj = [[0] * n for _ in range(n)]
  for j in range(n):
    adj[0][j] = (first_row >> j) & 1
  for i in range(1, n):
    for j in range(n):
      adj[i][j] = int(trace.get("e%d%d" % (i, j), 0))
  edit = (int(trace["editcol"]), int(trace.get("editmask", 0))) if "editcol" in trace else None
  return {"n": n, "adj": adj, "perm": int(trace.get("perm", 0)), "via_lookup": via_lookup, "edit": edit}


def SHARDS(tier):
  out = []
  if tier == "quick":
    for fr in range(8):
      out.append(((3, fr, False), None))
      out.append(((3, fr, True), 60.0))
      out.append(((3, fr, False, "clear"), 90.0))
  else:
    for fr in range(8):
      out.append(((3, fr, False, "full"), 900.0))
    for fr in range(16):
      out.append(((4, fr, False), 500.0))
      out.append(((4, fr, True), 200.0))
    for fr in range(8):
      out.append(((3, fr, False), None))
      out.append(((3, fr, True), None))
  return out


def replay(w):
  m = judge(w["n"], w["adj"], w["perm"], w["via_lookup"], tuple(w["edit"]) if w.get("edit") else None)
  return [m] if m else []


META = {
  "files": ["sandbox/grist/engine.py", "sandbox/grist/depend.py"],
  "oracle": "graph reachability computed by the harness: a cell that depends on itself holds CircularRefError; a cell that neither "
            "lies on nor reaches a cycle holds D + i + 1 + sum(deps); apply_user_actions raises nothing (in particular not 'not "
            "making progress'); a run that does not terminate is a violation; re-judged after a second bundle that gives one column a new "
            "set of references (quick: clears them; thorough: any subset, any schedule) and after a later data edit",
  "rule": "one evaluation = one (adjacency matrix, permutation of the initial work items) cube on a fresh document with two rows; "
          "non-trivial = at least one reference",
  "bounds": {"columns": "3 (quick) / 4 (thorough)", "graphs": "all 2^(n*n) adjacency matrices incl. self loops (n=4: time-capped)",
             "schedules": "all n! orders of the user columns' work items", "last column via Table.lookupOne(id=$id)": "both variants"},
}


def run(pid, tier, seed):
  return enumrun.run(pid, tier, seed, sys.modules[__name__])


def replay_cmd(pid, path):
  return enumrun.replay_cmd(pid, path, sys.modules[__name__])
