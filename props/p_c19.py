"""C19: invalid formulas are isolated and valid ones mean what they say (E2-enum; programs enumerated from
a fixed grammar - the solver variables are which text goes where and the data payloads)."""
import sys, io, ast, tokenize
import common, enumrun, docfix as F, bundles as B
import objtypes

TEXTS = [
 "$A + 1", "rec.A + 1", "x = $A\nx * 2", "x = $A\nreturn x * 2", "if $A > 1:\n  return 'big'\nreturn 'small'", "if $A > 1:\n  'big'\nelse:\n  'small'",
 "'$A'", "\"$A\" + str($A)", "# $A comment\n$A", "$A # trailing $B", "'''multi\n  line $A'''", "x = '''a\n b'''\nx + str($A)", "f'{$A}-{$A+1}'", "f'''{$A}\n x'''",
 "rec.A = 5\n$A", "rec = 5\nrec", "$A +", "def", "return", "  $A + 1", "\t$A", "$A\r\n+ 1", "($A\n + 1)", "lambda: $A", "(lambda x: x + $A)(1)", "[$A for _ in range(2)]",
 "$A; $A + 5", "pass", "x = 1", "for i in range(3):\n  pass", "while True:\n  return 7", "import math\nmath.floor($A)", "$NoSuch", "$A.foo", "1/0", "é = 1\né + $A", "'é' * $A",
 "$A if $A else\n", "\"unterminated", "'''unterminated", "$", "$$A", "$1", "a$A", "$A$A", "print($A)\n$A", "try:\n  1/0\nexcept:\n  $A", "yield $A", "class X: pass\nX", "global q\nq = 1\nq",
 "$A\n\n\n", "\n\n$A", "# only comment", "", "   ", "$A == 1 and \\\n $A < 3", "x: int = $A\nx", "assert $A\n'ok'", "del rec\n1", "with open('x') as f:\n  1", "$A.__class__.__name__",
 "$B.upper() + str($A)", "[r.A for r in T.all]", "sum(r.A for r in T.all) + $A", "$B[0] if $B else ''", "{'k': $A}['k']", "$A // 2 + $A % 2", "not $A", "-$A", "$A ** 2",
 # multi-line string literals below AST nodes of every kind (comprehension, arguments, match_case, withitem, keyword, handler ...)
 "[c for c in '''a\n b''']", "(lambda s='''a\n b''': s + str($A))()", "''.join(c for c in '''x\n  y''' if c != '''\n''')",
 "match $A:\n  case 1:\n    '''a\n b'''\n  case _:\n    'z'", "import contextlib\nwith contextlib.nullcontext('''a\n b''') as s:\n  return s",
 "dict(k='''a\n b''')['k']", "try:\n  1/0\nexcept ZeroDivisionError:\n  '''a\n b'''", "{'''k\n''': $A}", "x = [1 for _ in range(2) if '''a\n b''']\nlen(x)",
 "def g(a, b='''p\n q'''):\n  return b\ng(1)", "('''a\n b''' if $A else '''c\n  d''')", "['''a\n b''', $A][0]",
 "'a' \\\n 'b'", "\"\"\"$A\"\"\" + 'z'", "x = $A\ny = x + 1\ny if y > 2 else x", "$A\n# tail comment", "max($A, 1,\n    2)",
]
A_VALS = [1, 2, 0, None, 5]
B_VALS = ["p", "", "q$A"]
_base = []
warm_up = B.warm_up


def base():
  if not _base:
    d = F.Doc(replica=False)
    d.apply(["AddTable", "T", [{"id": "A", "type": "Int", "isFormula": False}, {"id": "B", "type": "Text", "isFormula": False},
                               {"id": "G", "type": "Any", "isFormula": True, "formula": "$A * 10"},
                               {"id": "H", "type": "Any", "isFormula": True, "formula": "$B.upper()"},
                               {"id": "X", "type": "Any", "isFormula": True, "formula": "0"},
                               {"id": "Y", "type": "Any", "isFormula": True, "formula": "$X"}]])
    d.apply(["AddTable", "U", [{"id": "R", "type": "Ref:T", "isFormula": False}, {"id": "Q", "type": "Any", "isFormula": True, "formula": "$R.G"}]])
    d.apply(["BulkAddRecord", "T", [None] * 2, {"A": [1, 2], "B": ["p", "q"]}])
    d.apply(["BulkAddRecord", "U", [None] * 2, {"R": [1, 2]}])
    _base.append(F.Saved(d))
  return _base[0]


def translate(text):
  """independent translation: tokenize, turn `$name` (outside strings and comments) into `rec.name`; the
  last statement, if it is an expression, is returned.  None if this reference cannot handle the text."""
  src = text.replace("\r\n", "\n")
  if "f'" in src or 'f"' in src:
    return None                               # f-strings are tokenised differently across Python versions
  try:
    toks = list(tokenize.generate_tokens(io.StringIO(src).readline))
  except Exception:
    return None
  lines = src.split("\n")
  offs = [0]
  for ln in lines:
    offs.append(offs[-1] + len(ln) + 1)
  edits = []
  for i, t in enumerate(toks):
    if t.type == tokenize.ERRORTOKEN and t.string == "$":
      nxt = toks[i + 1] if i + 1 < len(toks) else None
      if nxt is None or nxt.type != tokenize.NAME or nxt.start != t.end:
        return None
      pos = offs[t.start[0] - 1] + t.start[1]
      edits.append(pos)
    elif t.type == tokenize.ERRORTOKEN:
      return None
  out = src
  for pos in sorted(edits, reverse=True):
    out = out[:pos] + "rec." + out[pos + 1:]
  try:
    tree = ast.parse(out)
  except SyntaxError:
    return None
  if not tree.body:
    return None
  last = tree.body[-1]
  if isinstance(last, ast.Expr):
    tree.body[-1] = ast.copy_location(ast.Return(last.value), last)
  elif not any(isinstance(n, ast.Return) for n in ast.walk(tree)):
    return None                               # no value to return: Grist reports such a formula as invalid
  fn = ast.FunctionDef(name="_f", args=ast.arguments(posonlyargs=[], args=[ast.arg("rec"), ast.arg("table")], kwonlyargs=[],
                                                      kw_defaults=[], defaults=[]), body=tree.body, decorator_list=[], type_params=[])
  mod = ast.Module(body=[fn], type_ignores=[])
  ast.fix_missing_locations(mod)
  try:
    return compile(mod, "<ref>", "exec")
  except SyntaxError:
    return None


SKIP_VALUE = ("rec.A = ", "rec = ", "del rec", "print(", "yield", "global ", "open(", "class X", "T.all", "__class__")


def reference_values(d, text):
  code = translate(text)
  if code is None or any(s in text for s in SKIP_VALUE):
    return None
  data = d.e.fetch_table("T")
  out = []
  for i, rid in enumerate(data.row_ids):
    class Rec(object):
      pass
    rec = Rec()
    rec.id = rid
    rec.A = data.columns["A"][i]
    rec.B = data.columns["B"][i]
    rec.G = data.columns["G"][i]
    ns = {}
    try:
      exec(code, ns)
      out.append(("ok", ns["_f"](rec, None)))
    except Exception as ex:
      out.append(("err", type(ex).__name__))
  return out


def judge(ti, avals, bval, col):
  text = TEXTS[ti]
  d = base().restore()
  try:
    d.apply(["BulkUpdateRecord", "T", [1, 2], {"A": avals, "B": [bval, "q"]}])
  except Exception as ex:
    return "setup raised %r" % ex, False
  v0 = F.snap(d.e, user_only=True)
  try:
    if col == "X":
      d.apply(["ModifyColumn", "T", "X", {"formula": text}])
    else:
      d.apply(["AddColumn", "T", "Z", {"type": "Any", "isFormula": True, "formula": text}])
  except Exception as ex:
    return "setting the formula %r raised %s: %s" % (text, type(ex).__name__, str(ex)[:150]), False
  v1 = F.snap(d.e, user_only=True)
  tgt = "X" if col == "X" else "Z"
  for t in v0:
    for c in v0[t][1]:
      if (t, c) in (("T", tgt), ("T", "Y") if col == "X" else ("", "")):
        continue
      if not F.eq(v0[t][1][c], v1[t][1].get(c)):
        return "formula %r in T.%s changed another column %s.%s: %s -> %s" % (text, tgt, t, c, v0[t][1][c], v1[t][1].get(c)), True
  ref = reference_values(d, text)
  got = v1["T"][1][tgt]
  if ref is not None:
    for (kind, val), g in zip(ref, got):
      is_err = isinstance(g, list) and g and g[0] == "E"
      if kind == "err":
        if not is_err:
          return "formula %r: the reference raises %s, the engine holds %r" % (text, val, g), True
      else:
        try:
          ev = objtypes.encode_object(val)
        except Exception:
          continue
        if is_err or not F.eq(ev, g):
          return "formula %r evaluates to %r by its text, the engine holds %r" % (text, ev, g), True
  # the document keeps working
  try:
    d.apply(["UpdateRecord", "T", 1, {"A": 7}])
  except Exception as ex:
    return "after formula %r a later edit raised %s" % (text, type(ex).__name__), True
  if F.snap(d.e, user_only=True)["T"][1]["G"][0] != 70:
    return "after formula %r column G no longer recalculates" % (text,), True
  return None, True


def make_body(shard):
  lo, hi, col = shard

  def body(h):
    ti = h.int("text", lo, hi)
    a1 = h.choice("a1", A_VALS)
    bval = h.choice("b", B_VALS)
    msg, ok = judge(ti, [a1, 2], bval, col)
    w = {"text_index": ti, "text": TEXTS[ti], "avals": [a1, 2], "bval": bval, "col": col}
    return {"nontrivial": ok, "violations": ([{"msg": msg, "witness": w}] if msg else []), "sample": w}
  return body


def SHARDS(tier):
  n = len(TEXTS)
  step = 5
  return [((lo, min(n, lo + step), col), None) for col in ("X", "Z") for lo in range(0, n, step)]


def replay(w):
  m, _ = judge(w["text_index"], w["avals"], w["bval"], w["col"])
  return [m] if m else []


META = {
  "files": ["sandbox/grist/codebuilder.py", "sandbox/grist/gencode.py", "sandbox/grist/textbuilder.py", "sandbox/grist/engine.py"],
  "oracle": "(a) no column other than the one given the text (and its dependants) changes, the bundle does not raise, a later edit "
            "still recalculates; (b) for texts an independent tokenize-based translation ($name -> rec.name outside strings and "
            "comments, last expression returned) can compile, the engine's cell equals exec() of that translation on the same "
            "row values, and raises iff it raises",
  "rule": "one evaluation = one (formula text, target column, cell payloads) cube; non-trivial = the formula was accepted",
  "bounds": {"texts": len(TEXTS), "A values": A_VALS, "B values": B_VALS, "placement": ["ModifyColumn formula of X", "AddColumn Z"],
             "value comparison skipped for": "f-strings and texts with side effects / scope tricks: " + ", ".join(SKIP_VALUE)},
  "assumptions": ["formula text is enumerated (CPython's parser consumes it): the solver contributes the completeness bookkeeping only"],
}


def run(pid, tier, seed):
  return enumrun.run(pid, tier, seed, sys.modules[__name__])


def replay_cmd(pid, path):
  return enumrun.replay_cmd(pid, path, sys.modules[__name__])
