"""C20: row positions stay unique and order-preserving.

(a) E3 kernel lemmas over ALL doubles (QF_FPBV): the real relabeling.get_range / prevfloat / nextfloat run on
    floating-point proxies whose operators build z3 FP terms; comparisons fork lazily (no feasibility query at
    a branch; each complete path becomes one query `path condition AND NOT property`), min() builds an ite.
(b) E2-enum, bounded top level: prepare_inserts(sorted list, keys) with positions = catalogue float (+) k ulps,
    checked against the property's four clauses.
(c) E2-enum invariant on engine runs: every PositionNumber column holds distinct finite values per table."""
import os, sys, json, math, struct, time, importlib.util, itertools
import z3
import common, enumz3

F64 = z3.Float64()
RM = z3.RNE()
FILES = ["sandbox/grist/relabeling.py", "sandbox/grist/column.py", "sandbox/grist/docmodel.py"]


# ---------------------------------------------------------------------------------------------
# (a) lazy-forking FP executor

class LazyCtx(object):
  cur = None

  def __init__(self, script):
    self.script = script
    self.pos = 0
    self.pc = []

  def decide(self, cond):
    if self.pos < len(self.script):
      d = self.script[self.pos]
    else:
      d = [True, True]
      self.script.append(d)
    self.pos += 1
    self.pc.append(cond if d[0] else z3.Not(cond))
    return d[0]


def fv(x):
  return z3.FPVal(float(x), F64)


def w(x):
  if isinstance(x, SF):
    return x.e
  if isinstance(x, SI):
    return z3.fpSignedToFP(RM, x.e, F64)
  return fv(x)


class SB(object):
  """symbolic bool: forks when used as a Python bool"""
  def __init__(self, e): self.e = e
  def __bool__(self): return LazyCtx.cur.decide(self.e)


class SF(object):
  __slots__ = ('e', 'bv')

  def __init__(self, e, bv=None):
    self.e = e
    self.bv = bv          # the 64-bit pattern, when the float was made from one

  def __add__(s, o): return SF(z3.fpAdd(RM, s.e, w(o)))
  __radd__ = __add__
  def __sub__(s, o): return SF(z3.fpSub(RM, s.e, w(o)))
  def __rsub__(s, o): return SF(z3.fpSub(RM, w(o), s.e))
  def __mul__(s, o): return SF(z3.fpMul(RM, s.e, w(o)))
  __rmul__ = __mul__
  def __truediv__(s, o): return SF(z3.fpDiv(RM, s.e, w(o)))
  def __lt__(s, o): return SB(z3.fpLT(s.e, w(o)))
  def __le__(s, o): return SB(z3.fpLEQ(s.e, w(o)))
  def __gt__(s, o): return SB(z3.fpGT(s.e, w(o)))
  def __ge__(s, o): return SB(z3.fpGEQ(s.e, w(o)))
  def __eq__(s, o): return SB(z3.fpEQ(s.e, w(o)))
  def __ne__(s, o): return SB(z3.fpNEQ(s.e, w(o)))
  def __bool__(s): return LazyCtx.cur.decide(z3.Not(z3.fpIsZero(s.e)))
  __hash__ = None


class SI(object):
  """64-bit signed integer (bit pattern of a double)"""
  __slots__ = ('e',)

  def __init__(self, e): self.e = e
  def _o(s, o): return o.e if isinstance(o, SI) else z3.BitVecVal(o, 64)
  def __add__(s, o): return SI(s.e + s._o(o))
  __iadd__ = __add__
  def __sub__(s, o): return SI(s.e - s._o(o))
  __isub__ = __sub__
  def __ge__(s, o): return SB(s.e >= s._o(o))
  def __lt__(s, o): return SB(s.e < s._o(o))


class FakeStruct(object):
  """struct.pack/unpack('<d'|'<q') as IEEE bit-pattern reinterpretation"""
  extra = []

  @staticmethod
  def pack(fmt, x):
    return (fmt, x)

  @staticmethod
  def unpack(fmt, b):
    src, x = b
    if fmt == '<q' and src == '<d':
      if isinstance(x, SF) and x.bv is not None:
        return (SI(x.bv),)
      xe = x.e if isinstance(x, SF) else fv(x)
      fresh = z3.BitVec("bits%d" % len(FakeStruct.extra), 64)
      FakeStruct.extra.append(z3.fpBVToFP(fresh, F64) == xe)     # standard to_fp over a fresh bit-vector
      return (SI(fresh),)
    if fmt == '<d' and src == '<q':
      xe = x.e if isinstance(x, SI) else z3.BitVecVal(x, 64)
      return (SF(z3.fpBVToFP(xe, F64), bv=xe),)
    raise Exception("unsupported struct use")


def _smin(*args):
  if len(args) == 1:
    args = tuple(args[0])
  if not any(isinstance(a, SF) for a in args):
    return min(*args)
  r = args[0]
  for a in args[1:]:
    r = SF(z3.If(z3.fpLT(w(a), w(r)), w(a), w(r)))
  return r


def model_relabeling():
  common.setup_path()
  spec = importlib.util.spec_from_file_location("relabeling_model", os.path.join(common.GRIST, "relabeling.py"))
  m = importlib.util.module_from_spec(spec)
  spec.loader.exec_module(m)
  m.struct = FakeStruct
  m.float = lambda x: x if isinstance(x, SF) else float(x)
  m.min = _smin
  return m


def explore_lazy(fn, setup_constraints, timeout_ms):
  """fn() -> z3 Bool 'property'.  Returns dict(paths, queries, solver_s, verdicts, models)."""
  script = []
  out = {"paths": 0, "queries": 0, "solver_s": 0.0, "unsat": 0, "sat": [], "unknown": 0}
  while True:
    c = LazyCtx(script)
    LazyCtx.cur = c
    FakeStruct.extra = []
    prop = fn()
    out["paths"] += 1
    s = z3.SolverFor("QF_FPBV") if hasattr(z3, "SolverFor") else z3.Solver()
    s.set("timeout", timeout_ms)
    s.add(setup_constraints + c.pc + FakeStruct.extra + [z3.Not(prop)])
    t0 = time.time()
    r = s.check()
    out["solver_s"] += time.time() - t0
    out["queries"] += 1
    if r == z3.unsat:
      out["unsat"] += 1
    elif r == z3.sat:
      mdl = s.model()
      out["sat"].append({str(d): str(mdl[d]) for d in mdl.decls()})
    else:
      out["unknown"] += 1
    while script and not script[-1][1]:
      script.pop()
    if not script:
      break
    script[-1] = [not script[-1][0], False]
  LazyCtx.cur = None
  return out


def lemma_get_range(count, timeout_ms):
  m = model_relabeling()
  eb = z3.BitVec("e_bits", 64)
  s_ = z3.FP("s", F64)
  e_ = z3.fpBVToFP(eb, F64)
  cons = [z3.Not(z3.fpIsNaN(s_)), z3.Not(z3.fpIsInf(s_)), z3.Not(z3.fpIsNaN(e_)), z3.Not(z3.fpIsInf(e_)),
          z3.fpGEQ(s_, fv(0.0)), z3.fpLT(s_, e_)]

  def fn():
    s, e = SF(s_), SF(e_, bv=eb)
    rs = m.get_range(s, e, count)
    limit = m.prevfloat(e)
    chain = [s_] + [w(r) for r in rs] + [w(limit)]
    return z3.And([z3.fpLEQ(a, b) for a, b in zip(chain, chain[1:])] + [z3.fpLT(w(limit), e_)])
  r = explore_lazy(fn, cons, timeout_ms)
  r["name"] = "get_range(s, e, %d): s <= r_1 <= .. <= r_%d <= prevfloat(e) < e for all finite 0 <= s < e" % (count, count)
  return r


def lemma_prev_next(timeout_ms):
  m = model_relabeling()
  xb = z3.BitVec("x_bits", 64)
  x_ = z3.fpBVToFP(xb, F64)
  cons = [z3.Not(z3.fpIsNaN(x_)), z3.Not(z3.fpIsInf(x_)), z3.fpGT(x_, fv(0.0)), z3.fpLT(x_, fv(1.7e308))]

  def fn():
    x = SF(x_, bv=xb)
    n = m.nextfloat(x)
    p = m.prevfloat(n)
    p2 = m.prevfloat(x)
    return z3.And(z3.fpEQ(w(p), x_), z3.fpGT(w(n), x_), z3.fpLT(w(p2), x_), z3.fpEQ(w(m.nextfloat(p2)), x_))
  r = explore_lazy(fn, cons, timeout_ms)
  r["name"] = "prevfloat(nextfloat(x)) == x == nextfloat(prevfloat(x)), prevfloat(x) < x < nextfloat(x) for all finite x > 0"
  return r


def replay_lemma(w_):
  common.setup_path()
  import relabeling
  if w_["lemma"] == "get_range":
    s = struct.unpack('<d', struct.pack('<Q', int(w_["s_bits"])))[0]
    e = struct.unpack('<d', struct.pack('<Q', int(w_["e_bits"])))[0]
    rs = relabeling.get_range(s, e, w_["count"])
    lim = relabeling.prevfloat(e)
    chain = [s] + rs + [lim]
    ok = all(a <= b for a, b in zip(chain, chain[1:])) and lim < e
    return None if ok else "get_range(%r, %r, %d) = %r with prevfloat(e) = %r breaks s <= r.. <= prevfloat(e) < e" % (s, e, w_["count"], rs, lim)
  x = struct.unpack('<d', struct.pack('<Q', int(w_["x_bits"])))[0]
  ok = (relabeling.prevfloat(relabeling.nextfloat(x)) == x and relabeling.nextfloat(relabeling.prevfloat(x)) == x
        and relabeling.prevfloat(x) < x < relabeling.nextfloat(x))
  return None if ok else "prevfloat/nextfloat are not inverse at %r" % (x,)


# ---------------------------------------------------------------------------------------------
# (b) prepare_inserts, bounded

CAT = [0.0, 5e-324, 1.0, 1.5, 2.0, 2.0 ** 52, 1e300, float("inf"), float("-inf"), -1.0, 3.0]
EXIST_CAT = [5e-324, 1.0, 1.5, 2.0, 2.0 ** 52, 4e15, 3.0, 0.5]


def ulps(x, k):
  if math.isinf(x) or math.isnan(x):
    return x
  n = struct.unpack('<q', struct.pack('<d', x))[0]
  n += k if n >= 0 else -k
  return struct.unpack('<d', struct.pack('<q', n))[0]


def judge_inserts(existing, keys):
  common.setup_path()
  import relabeling
  from sortedcontainers import SortedListWithKey
  ex = sorted(existing)
  sl = SortedListWithKey(list(range(len(ex))), key=lambda i: ex[i])
  try:
    adjustments, new_keys = relabeling.prepare_inserts(sl, list(keys))
  except Exception as e:
    return "prepare_inserts(%r, %r) raised %s: %s" % (ex, keys, type(e).__name__, str(e)[:100])
  pos = list(ex)
  for i, k in adjustments:
    pos[i] = k
  allv = pos + list(new_keys)
  if any((not isinstance(v, float)) or math.isinf(v) or v != v for v in allv):
    return "prepare_inserts(%r, %r): non-finite position among %r" % (ex, keys, allv)
  if len(set(allv)) != len(allv):
    return "prepare_inserts(%r, %r): positions not distinct: existing %r new %r" % (ex, keys, pos, new_keys)
  if any(pos[i] >= pos[i + 1] for i in range(len(pos) - 1)):
    return "prepare_inserts(%r, %r): existing rows reordered: %r" % (ex, keys, pos)
  if len(new_keys) != len(keys):
    return "prepare_inserts(%r, %r) returned %d new keys" % (ex, keys, len(new_keys))
  for req, new in zip(keys, new_keys):
    # falls where its requested position falls: before existing rows with an equal or greater position
    idx = sum(1 for e in ex if e < req)
    if idx > 0 and not pos[idx - 1] < new:
      return "prepare_inserts(%r, %r): new key %r (requested %r) is not after existing row %d (%r)" % (ex, keys, new, req, idx - 1, pos[idx - 1])
    if idx < len(pos) and not new < pos[idx]:
      return "prepare_inserts(%r, %r): new key %r (requested %r) is not before existing row %d (%r)" % (ex, keys, new, req, idx, pos[idx])
  order = sorted(range(len(keys)), key=lambda i: (keys[i], i))
  if any(not new_keys[a] < new_keys[b] for a, b in zip(order, order[1:])):
    return "prepare_inserts(%r, %r): new rows do not keep the order of their requested positions: %r" % (ex, keys, new_keys)
  return None


def make_body(shard):
  ne, nk = shard

  def body(h):
    existing = []
    for i in range(ne):
      existing.append(ulps(EXIST_CAT[h.int("e%d" % i, 0, len(EXIST_CAT))], h.int("eu%d" % i, 0, 3)))
    if len(set(existing)) != len(existing):
      return {"nontrivial": False}
    keys = [ulps(CAT[h.int("k%d" % i, 0, len(CAT))], h.int("ku%d" % i, 0, 3)) for i in range(nk)]
    msg = judge_inserts(existing, keys)
    wt = {"existing": [x.hex() for x in existing], "keys": [x.hex() if not math.isinf(x) else repr(x) for x in keys]}
    return {"nontrivial": True, "violations": ([{"msg": msg, "witness": wt}] if msg else []), "sample": {"existing": existing, "keys": [repr(k) for k in keys]}}
  return body


DENSE_X = [1.3333333333333333, 1.0, 2.0, 2.5, 0.1, 1e15, 3.0, 5e-324, 0.75, 2.0 ** 52, 1.9999999999999998]


def make_dense_body(count):
  """adversarially dense neighbourhoods: two existing rows g ulps apart (g <= 4), optionally a third row just below or far
  below / above, and a batch of `count` rows requested at the upper row, the lower row, in between or alternating"""
  def body(h):
    x = DENSE_X[h.int("x", 0, len(DENSE_X))]
    g = h.int("gap", 1, 5)
    existing = [x, ulps(x, g)]
    third = h.choice("third", ["none", "1ulp_below", "far_below", "1ulp_above", "far_above"])
    if third != "none":
      existing.append({"1ulp_below": ulps(x, -1), "far_below": x / 2 - 1, "1ulp_above": ulps(x, g + 1), "far_above": x * 2 + 1}[third])
    if len(set(existing)) != len(existing) or any(math.isinf(v) or v != v for v in existing):
      return {"nontrivial": False}
    where = h.choice("where", ["upper", "lower", "between", "alternate"])
    hi, lo = ulps(x, g), x
    mid = ulps(x, g // 2) if g > 1 else hi
    keys = {"upper": [hi] * count, "lower": [lo] * count, "between": [mid] * count,
            "alternate": [hi if i % 2 == 0 else lo for i in range(count)]}[where]
    msg = judge_inserts(existing, keys)
    wt = {"existing": [v.hex() for v in existing], "keys": [v.hex() for v in keys]}
    return {"nontrivial": True, "violations": ([{"msg": msg, "witness": wt}] if msg else []), "sample": {"existing": existing, "keys": [repr(k) for k in keys]}}
  return body


def _run_shard(shard, seed, max_s):
  if shard[0] == "dense":
    res = enumz3.allsat(make_dense_body(shard[1]), seed=seed, max_s=max_s)
    return {"shard": shard, "runs": res.runs, "exhaustive": res.exhaustive, "solver_s": res.solver_s, "queries": res.queries,
            "nontrivial": res.nontrivial, "outputs": res.outputs, "errors": res.errors, "samples": res.samples}
  res = enumz3.allsat(make_body(shard), seed=seed, max_s=max_s)
  return {"shard": shard, "runs": res.runs, "exhaustive": res.exhaustive, "solver_s": res.solver_s, "queries": res.queries,
          "nontrivial": res.nontrivial, "outputs": res.outputs, "errors": res.errors, "samples": res.samples}


def _unhex(s):
  return float(s) if s in ("inf", "-inf") else float.fromhex(s)


def replay_cmd(pid, path):
  w_ = json.load(open(path))
  if "lemma" in w_:
    msg = replay_lemma(w_)
  elif "existing" in w_:
    msg = judge_inserts([_unhex(x) for x in w_["existing"]], [_unhex(x) for x in w_["keys"]])
  else:
    import bundles as B
    res = B.replay(w_, {"C20"})
    msg = next((m for p, m in res if p == "C20"), None)
  if msg:
    print("REPRODUCED property=C20 %s" % msg[:500])
    return 1
  print("not reproduced")
  return 0


def _lemma_task(kind, count, timeout_ms):
  return lemma_get_range(count, timeout_ms) if kind == "get_range" else lemma_prev_next(timeout_ms)


def _bundle_shard(fx, kind, size):
  import bundles as B
  return B.run_shard(fx, "one", kind, 1, size, size, {"C20"}, 0, 0, None, None)


def _dispatch(kind, *a):
  return {"lemma": _lemma_task, "ins": _run_shard, "bundle": _bundle_shard}[kind](*a)


def run(pid, tier, seed):
  ev = common.Evidence(pid, "other", tier, seed)
  tmo = 120000 if tier == "quick" else 600000
  tasks = [("lemma", "get_range", 1, tmo), ("lemma", "prev_next", 0, tmo)]
  if tier == "thorough":
    tasks.append(("lemma", "get_range", 2, tmo))
  shapes = [(ne, nk) for ne in (0, 1, 2, 3) for nk in (1, 2)] if tier == "quick" else [(ne, nk) for ne in (0, 1, 2, 3) for nk in (1, 2, 3)]
  for sh in shapes:
    tasks.append(("ins", sh, seed, 60.0 if tier == "quick" else 300.0))
  for count in (range(1, 7) if tier == "quick" else range(1, 13)):
    tasks.append(("ins", ("dense", count), seed, 60.0 if tier == "quick" else 300.0))
  for fx in ("basic", "views"):
    for k in ("UpdateRecord", "BulkUpdateRecord", "AddRecord", "BulkAddRecord", "RemoveRecord", "AddTable", "Summary"):
      tasks.append(("bundle", fx, k, "small" if tier == "quick" else "full"))
  results = common.pmap(_dispatch, tasks)
  harness, violations, rows = [], [], []
  obligations = discharged = runs = nontriv = queries = 0
  solver_s = 0.0
  for t, (st, r) in zip(tasks, results):
    if st != "ok":
      harness.append("task %s failed: %s" % (t[:3], str(r)[:800]))
      continue
    if t[0] == "lemma":
      obligations += 1
      queries += r["queries"]; solver_s += r["solver_s"]
      ok = not r["sat"] and not r["unknown"]
      discharged += ok
      rows.append({"lemma": r["name"], "paths": r["paths"], "unsat": r["unsat"], "unknown": r["unknown"], "solver_s": round(r["solver_s"], 1)})
      for mdl in r["sat"][:2]:
        def bits(name):
          v = mdl.get(name)
          return int(v) if v is not None and v.isdigit() else None
        if t[1] == "get_range":
          sv = mdl.get("s")
          try:
            sb = struct.unpack('<Q', struct.pack('<d', float(eval(sv.replace("*(2**", "*(2.0**"))) if sv else 0.0))[0]
          except Exception:
            sb = 0
          wt = {"engine": "E3", "lemma": "get_range", "count": t[2], "s_bits": sb, "e_bits": bits("e_bits") or 0}
        else:
          wt = {"engine": "E3", "lemma": "prev_next", "x_bits": bits("x_bits") or 0}
        msg = replay_lemma(wt)
        if msg:
          violations.append({"sig": {"pid": pid, "lemma": t[1]}, "msg": msg, "witness": wt})
        else:
          harness.append("FP lemma %s: solver model %s does not reproduce on real floats" % (t[1], mdl))
    else:
      runs += r["runs"]; nontriv += r["nontrivial"]; queries += r["queries"]; solver_s += r["solver_s"]
      for e in r["errors"]:
        harness.append("%s: %s" % (t[:3], str(e)[-500:]))
      ev.add_samples(r["samples"][:1], cap=6)
      for o in r["outputs"]:
        for v in o["violations"]:
          if t[0] == "ins":
            if judge_inserts([_unhex(x) for x in v["witness"]["existing"]], [_unhex(x) for x in v["witness"]["keys"]]):
              sub = any(0 < _unhex(x) < 2.3e-308 for x in v["witness"]["existing"])
              violations.append({"sig": {"pid": pid, "part": "prepare_inserts", "subnormal_existing": sub,
                                         "msg": v["msg"] if len(v["msg"]) <= 300 else v["msg"][:160] + " ... " + v["msg"][-130:]},
                                 "msg": v["msg"], "witness": v["witness"]})
          elif v.get("pid") == "C20":
            wt = {"fixture": t[1], "prefix": [], "bundles": v["bundles"], "oracle": "C20"}
            violations.append({"sig": {"pid": pid, "part": "engine", "msg": v["msg"][:120]}, "msg": v["msg"], "witness": wt})
  ev.cov.update({
    "explanation": "(a) relabeling.get_range/prevfloat/nextfloat executed on z3 FP(11,53)/BitVec(64) proxies with lazy forking; each "
                   "complete path is one QF_FPBV query 'path AND NOT property' over ALL doubles (unsat = lemma holds). (b) "
                   "prepare_inserts on every (existing list, key batch) from a float catalogue (+) 0..2 ulps, enumerated by z3 AllSAT "
                   "with cube blocking, against the property's clauses. (c) engine bundles: position columns distinct and finite.",
    "obligations": obligations, "discharged": discharged, "lemmas": rows,
    "checker_cmd": "z3 QF_FPBV per path; z3 AllSAT loop for (b),(c)", "trusted_base": ["z3-solver 5.1.0", "FP/struct proxies in props/p_c20.py"],
    "evaluations": runs + obligations, "distinct_nontrivial": nontriv + discharged,
    "rule": "(a) one evaluation per lemma; (b),(c) one evaluation per cube of catalogue indices / action holes",
    "solver_queries": queries, "solver_s": round(solver_s, 2), "functions_executed": common.code_ref(*FILES),
    "exhaustive": False,
    "bounds": {"lemmas": "all finite doubles 0 <= s < e (count 1; count 2 in thorough)", "prepare_inserts": "existing <= 3 rows from %r (+) 0..2 ulps, distinct, finite, positive, < 2^53; "
               "keys <= 2 (3 thorough) from %r (+) 0..2 ulps" % (EXIST_CAT, [repr(x) for x in CAT]),
               "dense neighbourhoods": "two existing rows 1..4 ulps apart at %r (+ optional third row), batches of 1..6 (12 thorough) rows requested at the "
                                       "upper / lower / middle position or alternating" % (DENSE_X,),
               "outside": "lists longer than 3; the 64-binade loop of _find_sparse_enough_range is not encoded symbolically"},
  })
  if not ev.cov["samples"]:
    ev.cov["samples"] = rows
  ev.assumptions = ["struct.pack/unpack modelled as IEEE-754 bit reinterpretation; float() identity on proxies; min() as if-then-else",
                    "existing positions distinct, finite, positive and below 2^53 (beyond it `last + count + 1 == last` and prepare_inserts asserts; the engine's own actions cannot produce such positions: an explicit manualSort is itself relabelled) (DESIGN C20(b))"]
  return common.report(pid, ev, violations, harness)
