"""C23: changing a column's type converts each stored value (E2-enum; type pair and contents are holes)."""
import sys
import common, enumrun, docfix as F, bundles as B

ALLT = ["Text", "Int", "Numeric", "Bool", "Any", "Choice", "ChoiceList", "Ref:A", "RefList:A", "Date", "DateTime:UTC", "Ref:B"]
POOL = ["x", "", None, 0, 5, 1.5, True, ["L", 1], ["L", 2, 3], "2020-01-02", "1", "[1,2]", 3, -1e20, float(2 ** 53), -12.0]
COLS = [("A", "Name"), ("A", "N"), ("A", "K"), ("B", "R"), ("B", "L")]
_base = {}
warm_up = B.warm_up


def base(fx):
  if fx not in _base:
    _base[fx] = F.Saved(F.build(fx, replica=False))
  return _base[fx]


def text_reference(v):
  """Numeric/Int/Bool -> Text, written independently from the rule documented in usertypes.Text.do_convert: whole numbers a
  double holds exactly (magnitude below 2**53) as integer digits, other floats with 15 significant digits"""
  if isinstance(v, float):
    if v != v or v in (float("inf"), float("-inf")):
      return str(v)
    if -(2 ** 53) < v < 2 ** 53 and v == int(v):
      return str(int(v))
    return "%.15g" % v
  return str(v)


def judge(fx, t, c, src, dst, vals):
  d = base(fx).restore()
  try:
    d.apply(["ModifyColumn", t, c, {"type": src}])
    rows = d.row_ids(t)
    d.apply(["BulkUpdateRecord", t, rows, {c: [vals[i % len(vals)] for i in range(len(rows))]}])
  except Exception:
    return None, False
  before = F.snap(d.e)
  raw_before = [d.e.tables[t].get_column(c).raw_get(r) for r in rows]
  try:
    d.apply(["ModifyColumn", t, c, {"type": dst}])
  except Exception as ex:
    r = F.snap_diff(F.snap(d.e), before)
    return (("type change %s->%s raised %s and changed the document: %s" % (src, dst, type(ex).__name__, r)) if r else None), False
  col = d.e.tables[t].get_column(c)
  exp = [F.enc(col.convert(v)) for v in raw_before]
  got = [F.enc(col.raw_get(r)) for r in rows]
  if not F.eq(exp, got):
    return "%s.%s %s->%s: cells %s became %s, the new type's conversion gives %s" % (t, c, src, dst, [F.enc(v) for v in raw_before], got, exp), True
  if dst == "Text":
    for v, g in zip(raw_before, got):
      if isinstance(v, (int, float)) and g != text_reference(v):
        return "%s.%s %s->Text: stored %r became %r, the documented rule gives %r" % (t, c, src, v, g, text_reference(v)), True
  after = F.snap(d.e)
  summ = d.summary_tables()
  rev = set()
  tc = d.e.fetch_table("_grist_Tables_column")
  for r_, rc in zip(tc.row_ids, tc.columns["reverseCol"]):
    if rc:
      rev.add(r_)
  for tt in before:
    if tt.startswith("_grist_") or tt in summ or tt not in after:
      continue
    for cc in before[tt][1]:
      if (tt, cc) == (t, c) or cc not in after[tt][1]:
        continue
      colobj = d.e.tables[tt].get_column(cc) if d.e.tables[tt].has_column(cc) else None
      if colobj is None or colobj.is_formula():
        continue
      try:
        if d.colref(tt, cc) in rev:
          continue                              # the reverse column of a two-way reference may follow
      except KeyError:
        continue
      if not F.eq(before[tt][1][cc], after[tt][1][cc]):
        return "%s.%s %s->%s changed another data column %s.%s: %s -> %s" % (t, c, src, dst, tt, cc, before[tt][1][cc], after[tt][1][cc]), True
  return None, True


def make_body(shard):
  fx, ci, src = shard
  t, c = COLS[ci]

  def body(h):
    dst = h.choice("dst", [x for x in ALLT if x != src])
    vals = [h.choice("v%d" % i, POOL) for i in range(2)]
    msg, applied = judge(fx, t, c, src, dst, vals)
    w = {"fixture": fx, "table": t, "col": c, "src": src, "dst": dst, "vals": vals}
    return {"nontrivial": applied, "violations": ([{"msg": msg, "witness": w}] if msg else []), "sample": w}
  return body


def SHARDS(tier):
  out = []
  for fx in (("basic",) if tier == "quick" else ("basic", "twoway")):
    for ci in range(len(COLS)):
      if fx == "twoway" and COLS[ci][0] == "A" and COLS[ci][1] != "Name":
        continue
      for src in ALLT:
        out.append(((fx, ci, src), 18.0 if tier == "quick" else 300.0))
  return out


def replay(w):
  m, _ = judge(w["fixture"], w["table"], w["col"], w["src"], w["dst"], w["vals"])
  return [m] if m else []


META = {
  "files": ["sandbox/grist/useractions.py", "sandbox/grist/docactions.py", "sandbox/grist/usertypes.py", "sandbox/grist/column.py"],
  "oracle": "every cell of the retyped column == the new column's convert(previous raw value) (encoded), and for numbers -> Text also == an "
            "independently written reference of the documented formatting rule; no data cell of another "
            "ordinary user table column changes, apart from the reverse column of a two-way reference; summary tables are judged "
            "by C12; a rejected type change leaves the document unchanged",
  "rule": "one evaluation = one (column, source type, target type, two cell contents) cube; non-trivial = the type change was applied",
  "bounds": {"types": ALLT, "cell pool": POOL, "columns": COLS, "fixtures": ["basic (quick)", "basic + twoway (thorough)"]},
}


def run(pid, tier, seed):
  return enumrun.run(pid, tier, seed, sys.modules[__name__])


def replay_cmd(pid, path):
  return enumrun.replay_cmd(pid, path, sys.modules[__name__])
