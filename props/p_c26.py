"""C26: temporary (negative) row ids resolve consistently within a bundle (E2-enum + reference interpretation)."""
import sys
import common, enumrun, docfix as F

ACTS = [("AddRecord", "A", -1, {"X": "n1"}), ("AddRecord", "A", -2, {"X": "n2"}), ("BulkAddRecord", "A", [-1, -2], {"X": ["m1", "m2"]}),
        ("AddRecord", "A", None, {"X": "auto"}),
        ("AddRecord", "B", -1, {"R": -1}), ("AddRecord", "B", None, {"R": -2}), ("AddRecord", "B", None, {"L": ["L", -1, 1]}),
        ("AddRecord", "B", None, {"L": ["L", -2, -1]}), ("AddRecord", "B", None, {"R": -3}),
        ("UpdateRecord", "A", -1, {"X": "upd"}), ("RemoveRecord", "A", -1), ("UpdateRecord", "B", 1, {"R": -1}),
        ("UpdateRecord", "B", 1, {"L": ["L", -1]}), ("UpdateRecord", "B", -1, {"R": 1}),
        ("BulkUpdateRecord", "B", [1, -1], {"R": [-2, -1]}), ("BulkAddRecord", "B", [-1, -2], {"R": [-1, 1], "L": [None, ["L", -2]]})]


def fixture():
  d = F.Doc(replica=False)
  d.apply(["AddTable", "A", [{"id": "X", "type": "Text", "isFormula": False}]])
  d.apply(["AddTable", "B", [{"id": "R", "type": "Ref:A", "isFormula": False}, {"id": "L", "type": "RefList:A", "isFormula": False}]])
  d.apply(["BulkAddRecord", "A", [None], {"X": ["a"]}])
  d.apply(["BulkAddRecord", "B", [None], {"R": [1]}])
  return d


class Unresolved(Exception):
  """an unresolved negative reference VALUE: the bundle must be rejected"""


class UnresolvedRow(Exception):
  """an unresolved negative ROW id given to Update/Remove: outside the statement (reject or no-op)"""


def model(bundle):
  A = {1: "a"}
  Bt = {1: {"R": 1, "L": None}}
  tmp = {"A": {}, "B": {}}

  def ref(i):
    if isinstance(i, int) and i < 0:
      if i not in tmp["A"]:
        raise Unresolved(i)
      return tmp["A"][i]
    return i

  def row(t, i):
    if isinstance(i, int) and i < 0:
      if i not in tmp[t]:
        raise UnresolvedRow(i)
      return tmp[t][i]
    return i

  def conv(c, v):
    if c == "R":
      return ref(v)
    if c == "L":
      return None if v is None else ["L"] + [ref(x) for x in v[1:]]
    return v
  for a in bundle:
    k, t = a[0], a[1]
    tbl = A if t == "A" else Bt
    if k in ("AddRecord", "BulkAddRecord"):
      ids = a[2] if k == "BulkAddRecord" else [a[2]]
      vals = a[3] if k == "BulkAddRecord" else {c: [v] for c, v in a[3].items()}
      nxt = max(list(tbl) + [0]) + 1
      new = list(range(nxt, nxt + len(ids)))
      # temp ids are defined before the values of the same action are translated
      for i, nid in zip(ids, new):
        if isinstance(i, int) and i < 0:
          tmp[t][i] = nid
      cv = {c: [conv(c, v) for v in vs] for c, vs in vals.items()}
      for j, nid in enumerate(new):
        if t == "A":
          tbl[nid] = cv.get("X", [""] * len(ids))[j]
        else:
          tbl[nid] = {"R": 0, "L": None}
          for c in cv:
            tbl[nid][c] = cv[c][j]
    elif k in ("UpdateRecord", "BulkUpdateRecord"):
      rows = a[2] if k == "BulkUpdateRecord" else [a[2]]
      vals = a[3] if k == "BulkUpdateRecord" else {c: [v] for c, v in a[3].items()}
      rs = [row(t, r) for r in rows]
      for r in rs:
        if r not in tbl:
          raise UnresolvedRow(r)
      for c, vs in vals.items():
        for r, v in zip(rs, vs):
          if t == "A":
            tbl[r] = v
          else:
            tbl[r][c] = conv(c, v)
    elif k == "RemoveRecord":
      r = row(t, a[2])
      if r in tbl:
        del tbl[r]
        if t == "A":
          for b in Bt.values():
            if b["R"] == r:
              b["R"] = 0
            if b["L"]:
              kept = [x for x in b["L"][1:] if x != r]
              b["L"] = (["L"] + kept) if kept else None
  return A, Bt


def state(d):
  a, b = d.e.fetch_table("A"), d.e.fetch_table("B")
  return ({r: F.enc(x) for r, x in zip(a.row_ids, a.columns["X"])},
          {r: {"R": F.enc(x), "L": F.enc(y)} for r, x, y in zip(b.row_ids, b.columns["R"], b.columns["L"])})


def judge(bundle):
  d = fixture()
  s0 = F.snap(d.e)
  try:
    exp = model(bundle)
  except Unresolved:
    exp = "REJECT"
  except UnresolvedRow:
    exp = "EITHER"
  try:
    d.apply(*[list(a) for a in bundle])
  except Exception as ex:
    r = F.snap_diff(F.snap(d.e), s0)
    if r:
      return "bundle %s raised %s and left a trace: %s" % (bundle, type(ex).__name__, r)
    if exp not in ("REJECT", "EITHER"):
      return "bundle %s raised %s: %s, but every temporary id in it is defined" % (bundle, type(ex).__name__, str(ex)[:100])
    return None
  if exp == "REJECT":
    return "bundle %s uses a negative reference id that no action created, yet was accepted: %s" % (bundle, state(d))
  if exp == "EITHER":
    return None
  got = state(d)
  if got != exp:
    return "bundle %s: document is %s, the temp-id interpretation gives %s" % (bundle, got, exp)
  return None


def make_body(shard):
  n, first = shard

  def body(h):
    idx = [first] + [h.int("a%d" % i, 0, len(ACTS)) for i in range(1, n)]
    bundle = [ACTS[i] for i in idx]
    msg = judge(bundle)
    return {"nontrivial": True, "violations": ([{"msg": msg, "witness": {"idx": idx}}] if msg else []), "sample": [list(a) for a in bundle]}
  return body


def SHARDS(tier):
  out = [((3, f), 90.0 if tier == "quick" else 900.0) for f in range(len(ACTS))]
  out += [((2, f), None) for f in range(len(ACTS))] + [((1, f), None) for f in range(len(ACTS))]
  return out


def replay(w):
  m = judge([ACTS[i] for i in w["idx"]])
  return [m] if m else []


META = {
  "files": ["sandbox/grist/action_summary.py", "sandbox/grist/useractions.py", "sandbox/grist/column.py"],
  "oracle": "reference interpretation (temp id -> allocated id per table, later definition wins) applied to a dict model of two "
            "tables; an undefined negative reference VALUE must raise and leave no trace; an undefined negative ROW id given to "
            "Update/Remove may be rejected or ignored",
  "rule": "one evaluation = one bundle of 1-3 actions drawn from the action pool, on a fresh two-table document; all non-trivial",
  "bounds": {"action pool": [list(a) for a in ACTS], "bundle length": "<= 3"},
}


def run(pid, tier, seed):
  return enumrun.run(pid, tier, seed, sys.modules[__name__])


def replay_cmd(pid, path):
  return enumrun.replay_cmd(pid, path, sys.modules[__name__])
