"""C27: row id allocation never collides or creates ghost rows (E2-enum)."""
import common, enumrun, docfix as F

IDS = [None, -1, 0, 2, 5, 1000000, 1000001]
EXISTING = [[], [1, 2, 3], [1, 3], [2, 4]]


def _doc(existing):
  d = F.Doc(replica=False)
  d.apply(["AddTable", "T", [{"id": "A", "type": "Text", "isFormula": False},
                             {"id": "F", "type": "Any", "isFormula": True, "formula": "$A.upper()"}]])
  d.apply(["BulkAddRecord", "T", [None] * 4, {"A": ["a", "b", "c", "d"]}])
  gone = [r for r in (1, 2, 3, 4) if r not in existing]
  if gone:
    d.apply(["BulkRemoveRecord", "T", gone])
  return d


def judge(existing, kind, ids):
  """run on a fresh doc; returns None or message"""
  d = _doc(existing)
  s0 = F.snap(d.e)
  before = set(existing)
  if kind == "AddRecord":
    ua = ["AddRecord", "T", ids[0], {"A": "n"}]
  else:
    ua = [kind, "T", list(ids), {"A": ["n%d" % i for i in range(len(ids))]}]
  base = set() if kind == "ReplaceTableData" else before
  explicit = [i for i in ids if i is not None and i >= 0]
  must_reject = (any(i == 0 for i in explicit) or any(i > 1000000 for i in explicit) or len(set(explicit)) != len(explicit)
                 or any(i in base for i in explicit))
  try:
    ag = d.apply(ua)
  except Exception as ex:
    r = F.snap_diff(F.snap(d.e), s0)
    if r:
      return "%s rejected (%s) but the document changed: %s" % (ua, type(ex).__name__, r)
    return None
  data = d.e.fetch_table("T")
  after = list(data.row_ids)
  ret = ag.retValues[0]
  if must_reject:
    return "%s on rows %s was accepted (returned %s, rows now %s) although it cannot create exactly the requested distinct rows" % (
      ua, sorted(before), ret, after)
  if after != sorted(set(after)):
    return "%s: fetch_table row ids not strictly ascending: %s" % (ua, after)
  if any(len(v) != len(after) for v in data.columns.values()):
    return "%s: column lengths differ from the number of rows" % (ua,)
  if kind == "AddRecord":
    ret = [ret]
  if kind == "ReplaceTableData":
    if len(after) != len(ids):
      return "%s: %d rows exist for %d requested" % (ua, len(after), len(ids))
    new = after
  else:
    if not isinstance(ret, list) or len(ret) != len(ids):
      return "%s returned %s for %d requested rows" % (ua, ret, len(ids))
    if len(set(ret)) != len(ret):
      return "%s returned repeated ids %s" % (ua, ret)
    if set(after) != base | set(ret):
      return "%s returned %s but rows are %s (before: %s)" % (ua, ret, after, sorted(base))
    if set(ret) & base:
      return "%s returned ids %s that already existed" % (ua, sorted(set(ret) & base))
    new = ret
  for want, got in zip(ids, new if kind != "ReplaceTableData" else [None] * len(ids)):
    if got is None:
      continue
    if want is not None and want > 0 and got != want:
      return "%s: explicit id %s became %s" % (ua, want, got)
    if (want is None or want < 0) and base and got <= max(base):
      return "%s: automatic id %s is not greater than every existing id %s" % (ua, got, sorted(base))
  return None


def make_body(shard):
  kind, ex_i, n = shard

  def body(h):
    existing = EXISTING[ex_i]
    ids = [h.choice("id%d" % i, IDS) for i in range(n)]
    msg = judge(existing, kind, ids)
    w = {"existing": existing, "kind": kind, "ids": ids}
    return {"nontrivial": True, "violations": ([{"msg": msg, "witness": w}] if msg else []), "sample": w}
  return body


def SHARDS(tier):
  out = [(("AddRecord", e, 1), None) for e in range(len(EXISTING))]
  for k in ("BulkAddRecord", "ReplaceTableData"):
    for e in range(len(EXISTING)):
      for n in (3, 2, 1):
        out.append(((k, e, n), None))
  return sorted(out, key=lambda x: -x[0][2])


def replay(w):
  m = judge(w["existing"], w["kind"], w["ids"])
  return [m] if m else []


META = {
  "files": ["sandbox/grist/useractions.py", "sandbox/grist/docactions.py", "sandbox/grist/engine.py", "sandbox/grist/table.py"],
  "oracle": "success: returned ids == rows created, distinct, disjoint from existing rows, explicit ids kept, automatic ids > every "
            "existing id, fetch_table ids strictly ascending, all columns one value per row; requests with an existing / repeated "
            "explicit id, an id > 1,000,000 or an explicit 0 must raise and leave every table unchanged",
  "rule": "one evaluation = one (existing row set, action, id list) cube on a fresh document; all are non-trivial",
  "bounds": {"id pool": IDS, "id list length": "<= 3", "existing row sets": EXISTING, "actions": ["AddRecord", "BulkAddRecord", "ReplaceTableData"],
             "outside": "repeated negative placeholders are not required to be rejected (only to yield distinct rows)"},
}


def run(pid, tier, seed):
  import sys
  return enumrun.run(pid, tier, seed, sys.modules[__name__])


def replay_cmd(pid, path):
  import sys
  return enumrun.replay_cmd(pid, path, sys.modules[__name__])
