"""C28: BulkAddOrUpdateRecord / AddOrUpdateRecord follow the documented reference (E2-enum + reference upsert)."""
import sys
import common, enumrun, docfix as F

ROWS = [[("a", 1, "p"), ("b", 2, "q"), ("a", 1, "r")], [("a", 1, "p")], []]
K1S = [None, ["a"], ["c"], ["a", "c"], ["a", "a"], ["b", "a"]]
K2S = [None, [1], [1, 2], [2, 3], [1, 1.0], [2.0, 3], [True, 1]]   # incl. value-equal keys spelled differently
VS = [None, ["z"], ["z", "w"]]
VK2 = [None, [7]]
ON_MANY = [None, "first", "all", "none", "bad"]


def fixture(rows):
  d = F.Doc(replica=False)
  d.apply(["AddTable", "T", [{"id": "K1", "type": "Text", "isFormula": False}, {"id": "K2", "type": "Int", "isFormula": False},
                             {"id": "V", "type": "Text", "isFormula": False},
                             {"id": "F", "type": "Text", "isFormula": True, "formula": "$K1.upper()"}]])
  if rows:
    d.apply(["BulkAddRecord", "T", [None] * len(rows), {"K1": [r[0] for r in rows], "K2": [r[1] for r in rows], "V": [r[2] for r in rows]}])
  return d


def model(rows, require, col_values, options):
  rows = [dict(id=i + 1, K1=r[0], K2=r[1], V=r[2]) for i, r in enumerate(rows)]
  on_many = options.get("on_many", "first")
  if on_many not in ("first", "none", "all"):
    return "ERR"
  if not require and not options.get("allow_empty_require", False):
    return "ERR"
  if not require and not col_values:
    return (rows, [])
  lens = {len(v) for v in list(require.values()) + list(col_values.values())}
  if len(lens) != 1:
    return "ERR"
  n = lens.pop()
  if require and len(set(zip(*require.values()))) < n:
    return "ERR"
  ids, adds, updates = [], [], []
  for i in range(n):
    m = [r for r in rows if all(r[k] == v[i] for k, v in require.items())]
    if not m and options.get("add", True):
      adds.append((i, dict({k: v[i] for k, v in require.items()}, **{k: v[i] for k, v in col_values.items()})))
      ids.append(None)
      continue
    if m and options.get("update", True):
      if len(m) > 1:
        if on_many == "first":
          m = m[:1]
        elif on_many == "none":
          ids.append([])
          continue
      for r in m:
        updates.append((r, {k: v[i] for k, v in col_values.items()}))
      ids.append([r["id"] for r in m])
      continue
    ids.append([])
  nxt = max([r["id"] for r in rows] + [0]) + 1
  for i, vals in adds:
    rows.append(dict(dict(id=nxt, K1="", K2=0, V=""), **vals))
    ids[i] = [nxt]
    nxt += 1
  for r, vals in updates:
    r.update(vals)
  return (rows, ids)


def table_state(d):
  t = d.e.fetch_table("T")
  return [dict(id=r, K1=F.enc(t.columns["K1"][i]), K2=F.enc(t.columns["K2"][i]), V=F.enc(t.columns["V"][i]))
          for i, r in enumerate(t.row_ids)]


def judge(rows, req, vals, opt, single):
  d = fixture(rows)
  exp = model(rows, req, vals, opt)
  if single and not req and not vals:
    # AddOrUpdateRecord documents nothing to do for an empty request and returns action NONE before
    # any argument check; only "no change" is demanded for it
    exp = ([dict(id=i + 1, K1=r[0], K2=r[1], V=r[2]) for i, r in enumerate(rows)], [])
  s0 = F.snap(d.e)
  if single:
    ua = ["AddOrUpdateRecord", "T", {k: v[0] for k, v in req.items()}, {k: v[0] for k, v in vals.items()}, dict(opt)]
  else:
    ua = ["BulkAddOrUpdateRecord", "T", {k: list(v) for k, v in req.items()}, {k: list(v) for k, v in vals.items()}, dict(opt)]
  try:
    ag = d.apply(ua)
  except Exception as ex:
    r = F.snap_diff(F.snap(d.e), s0)
    if r:
      return "%s raised %s and changed the document: %s" % (ua, type(ex).__name__, r)
    if exp != "ERR":
      return "%s raised %s: %s; the reference accepts it" % (ua, type(ex).__name__, str(ex)[:100])
    return None
  if exp == "ERR":
    return "%s was accepted (returned %s); the documented argument checks reject it" % (ua, ag.retValues[0])
  got = table_state(d)
  if got != exp[0]:
    return "%s: table is %s, reference says %s" % (ua, got, exp[0])
  ret = ag.retValues[0]
  if not single and ret["recordIds"] != exp[1]:
    return "%s returned %s, reference says %s" % (ua, ret["recordIds"], exp[1])
  return None


def make_body(shard):
  ri, single, k1i = shard

  def body(h):
    rows = ROWS[ri]
    req, vals, opt = {}, {}, {}
    k1 = K1S[k1i]; k2 = h.choice("k2", K2S)
    if k1 is not None: req["K1"] = k1
    if k2 is not None: req["K2"] = k2
    v = h.choice("v", VS); vk = h.choice("vk2", VK2)
    if v is not None: vals["V"] = v
    if vk is not None: vals["K2"] = vk
    om = h.choice("on_many", ON_MANY)
    if om is not None: opt["on_many"] = om
    for name in ("update", "add"):
      if not h.bool(name): opt[name] = False
    if h.bool("allow_empty"): opt["allow_empty_require"] = True
    if single and any(len(x) != 1 for x in list(req.values()) + list(vals.values())):
      return {"nontrivial": False}
    msg = judge(rows, req, vals, opt, single)
    w = {"rows": ri, "require": req, "col_values": vals, "options": opt, "single": single}
    return {"nontrivial": True, "violations": ([{"msg": msg, "witness": w}] if msg else []), "sample": w}
  return body


def SHARDS(tier):
  return [((ri, s, k1), None) for ri in range(len(ROWS)) for s in (False, True) for k1 in range(len(K1S))]


def replay(w):
  m = judge(ROWS[w["rows"]], w["require"], w["col_values"], w["options"], w["single"])
  return [m] if m else []


META = {
  "files": ["sandbox/grist/useractions.py"],
  "oracle": "a 40-line reference upsert (lookup by require, on_many first/all/none, update/add flags, argument validation) applied to "
            "the pre-state; compare the resulting table, the returned recordIds, and rejection-without-change for invalid arguments",
  "rule": "one evaluation = one (table contents, require, col_values, options) cube on a fresh document; non-trivial = not skipped",
  "bounds": {"tables": ROWS, "require K1": K1S, "require K2": K2S, "col_values V": VS, "col_values K2": VK2, "on_many": ON_MANY,
             "flags": "update, add, allow_empty_require in {default, set}", "forms": ["BulkAddOrUpdateRecord", "AddOrUpdateRecord"]},
}


def run(pid, tier, seed):
  return enumrun.run(pid, tier, seed, sys.modules[__name__])


def replay_cmd(pid, path):
  return enumrun.replay_cmd(pid, path, sys.modules[__name__])
