"""C29: read-only calls leave the document untouched (E2-enum; call kind and arguments are holes)."""
import sys
import common, enumrun, docfix as F

USER = {"Name": "x", "UserID": 1, "Email": "e", "Access": "owners", "LinkKey": {}, "Origin": None, "SessionID": "s",
        "IsLoggedIn": True, "UserRef": "u", "ShareRef": None}
TEXTS = ["$", "$R.", "A.lookupRecords(", "A.", "rec.N + ", "SU", "$group.", "user.", "value", "A.lookupOne(K=", "$L.", "", "1 +",
         "B.all.", "rec.", "$R.Name.up", "max(", "A.lookupOrAddDerived(", "PREVIOUS(rec, ", "grist."]
ROWS = [0, 1, 3, 9, "new"]
_base = []


def base():
  if not _base:
    d = F.build("views", replica=False)
    # a formula with a side effect (lookupOrAddDerived), guarded so that it stays quiet in normal recalculation
    d.apply(["AddColumn", "B", "SE", {"type": "Any", "isFormula": True,
                                      "formula": "A.lookupOrAddDerived(Name='zz' + str($id)).id if $id > 5 else 0"}])
    # ... and one whose side effect is followed by an error: the engine takes the added record back, at recalculation and
    # again every time the cell is re-evaluated for get_formula_error / evaluate_formula
    d.apply(["AddColumn", "B", "SE2", {"type": "Any", "isFormula": True,
                                       "formula": "a = A.lookupOrAddDerived(Name='nn' + str($id))\nreturn 1 / a.N"}])
    _base.append(F.Saved(d))
  return _base[0]


# what the document went through just before the read-only call (its own bundle): the out-action bookkeeping that
# checkpoints are taken against differs after an add to a table with formula columns, an update, a removal
PRIOR = [None, ["AddRecord", "B", None, {}], ["UpdateRecord", "A", 1, {"N": 5}], ["AddRecord", "A", None, {"Name": "w"}],
         ["RemoveRecord", "B", 1], ["BulkAddRecord", "B", [None, None], {"R": [1, 2]}]]


def tables_cols(d):
  out = []
  for t in ["A", "B"] + sorted(d.summary_tables()) + ["_grist_Tables_column"]:
    cols = [c for c in d.e.tables[t].all_columns if not c.startswith("#")]
    cols = [c for c in cols if c in ("SE", "SE2")] + [c for c in cols if c not in ("SE", "SE2")][:9]
    out.append((t, cols))
  return out


def do_call(d, call):
  import formula_prompt
  e = d.e
  k = call["kind"]
  if k == "fetch_table":
    return e.fetch_table(call["table"])
  if k == "fetch_table_query":
    return e.fetch_table(call["table"], query={"id": [1, 2]})
  if k == "fetch_meta_tables":
    return e.fetch_meta_tables()
  if k == "get_formula_error":
    return e.get_formula_error(call["table"], call["col"], call["row"])
  if k == "evaluate_formula":
    return formula_prompt.evaluate_formula(e, call["table"], call["col"], call["row"])
  if k == "get_formula_prompt":
    return formula_prompt.get_formula_prompt(e, call["table"], call["col"])
  if k == "autocomplete":
    return e.autocomplete(call["text"], call["table"], call["col"], call["row"], USER)
  if k == "find_col_from_values":
    return e.find_col_from_values(call["values"], call["n"], call.get("opt_table"))
  raise AssertionError(k)


def judge(d, call):
  if call.get("prior"):
    try:
      d.apply(list(call["prior"]))
    except Exception:
      pass
  s0 = F.snap(d.e)
  try:
    do_call(d, call)
  except Exception:
    pass                      # the property is about state, the call itself may raise
  r = F.snap_diff(F.snap(d.e), s0)
  if r:
    return "%s changed the document: %s" % (call, r)
  try:
    ag = d.e.apply_user_actions([F.UA(["Calculate"])])
  except Exception as ex:
    return "after %s the next Calculate raises %s: %s" % (call, type(ex).__name__, str(ex)[:200])
  if ag.stored or ag.undo or ag.calc:
    return "after %s the next Calculate emits %s" % (call, F.stored_reprs(ag)[:2])
  r = F.snap_diff(F.snap(d.e), s0)
  if r:
    return "after %s and Calculate the document differs: %s" % (call, r)
  return None


KINDS = ["fetch_table", "fetch_table_query", "fetch_meta_tables", "get_formula_error", "evaluate_formula", "get_formula_prompt",
         "autocomplete", "find_col_from_values"]


def make_body(shard):
  kind, = shard

  def body(h):
    d = base().restore()
    call = {"kind": kind}
    if kind == "find_col_from_values":
      call["values"] = h.choice("values", [["a", "b", ["L", 1]], ["x", "y"], [], [1, 2, None]])
      call["n"] = h.choice("n", [0, 2])
      call["opt_table"] = h.choice("opt_table", [None, "A", "Nope"])
    elif kind != "fetch_meta_tables":
      tc = tables_cols(d)
      t, cols = h.choice("table", tc)
      call["table"] = t
      if kind not in ("fetch_table", "fetch_table_query"):
        call["col"] = h.choice("col", cols)
        if kind in ("get_formula_error", "evaluate_formula", "autocomplete"):
          call["row"] = h.choice("row", ROWS if kind != "evaluate_formula" else ROWS[:4])
        if kind == "autocomplete":
          call["text"] = h.choice("text", TEXTS)
    if kind in ("get_formula_error", "evaluate_formula", "autocomplete", "get_formula_prompt", "fetch_table"):
      call["prior"] = h.choice("prior", PRIOR)
    msg = judge(d, call)
    return {"nontrivial": True, "violations": ([{"msg": msg, "witness": call}] if msg else []), "sample": call}
  return body


def SHARDS(tier):
  return [((k,), 100.0 if tier == "quick" else 900.0) for k in KINDS]


def replay(w):
  d = base().restore()
  m = judge(d, w)
  return [m] if m else []


META = {
  "files": ["sandbox/grist/engine.py", "sandbox/grist/formula_prompt.py", "sandbox/grist/autocomplete_context.py", "sandbox/grist/docmodel.py"],
  "oracle": "snapshot of all tables unchanged by the call; the following Calculate raises nothing, emits no stored/undo/calc actions "
            "and changes nothing (exceptions from the call itself are allowed)",
  "rule": "one evaluation = one (call kind, table, column, row, text/values) cube on a restored copy of fixture 'views' + a "
          "lookupOrAddDerived formula; all are non-trivial",
  "bounds": {"calls": KINDS, "rows": ROWS, "autocomplete texts": TEXTS, "bundle applied just before the call": PRIOR, "tables": "A, B, the summary table, _grist_Tables_column; first 9 columns each"},
}


def run(pid, tier, seed):
  return enumrun.run(pid, tier, seed, sys.modules[__name__])


def replay_cmd(pid, path):
  return enumrun.replay_cmd(pid, path, sys.modules[__name__])
