"""C34 (E3): time zone conversions round-trip, for every bundled zone and every timestamp in the range.

The real moment.ts_to_dt / dt_to_ts / date_to_ts / ts_to_date / Zone._index / _index_dt / offset /
dt_offset / TzInfo.fromutc / utc_to_ts_ms run on z3-backed integers (lib/symlite.py) with the real zone
tables; datetime/timedelta/date are replaced, in a private copy of the module, by an integer-microsecond
model (validated against the real datetime at the start of every run)."""
import os, sys, json, time, random, importlib.util, datetime as _dt
import z3
import common, symlite
from symlite import SNum, _w

US = 1000000
RANGE_S = 9 * 10 ** 9          # |ts| <= 9e9 s (years 1684 .. 2255): float arithmetic of the real code is exact there
FILES = ["sandbox/grist/moment.py", "sandbox/grist/tzdata.data"]


class TD(object):
  def __init__(self, days=0, seconds=0, microseconds=0, milliseconds=0, minutes=0, hours=0, weeks=0, _us=None):
    self.us = _us if _us is not None else ((((weeks * 7 + days) * 24 + hours) * 60 + minutes) * 60 * US + seconds * US
                                           + milliseconds * 1000 + microseconds)
    if isinstance(self.us, float):
      # datetime.timedelta rounds to whole microseconds (half to even); zone tables hold offsets such as -130.33333333333334
      # minutes (local mean time), for which minutes * 60e6 is not an integer in floating point
      self.us = int(round(self.us))

  def total_seconds(self):
    return self.us / US

  def __neg__(self): return TD(_us=-self.us)

  def __eq__(self, o):
    return isinstance(o, TD) and bool(self.us == o.us)

  def __hash__(self): return hash(self.us)
  def __sub__(self, o): return TD(_us=self.us - o.us)
  def __add__(self, o): return TD(_us=self.us + o.us) if isinstance(o, TD) else NotImplemented


class DT(object):
  """datetime as integer microseconds since the epoch of its own wall clock (+ tzinfo)"""
  def __init__(self, us, tzinfo=None):
    self.us = us
    self.tzinfo = tzinfo

  def replace(self, tzinfo=True): return DT(self.us, tzinfo)

  def __sub__(self, o):
    return DT(self.us - o.us, self.tzinfo) if isinstance(o, TD) else TD(_us=self.us - o.us)

  def __add__(self, o): return DT(self.us + o.us, self.tzinfo)
  def utcoffset(self): return None if self.tzinfo is None else self.tzinfo.utcoffset(self)

  def astimezone(self, tz):
    off = self.utcoffset()
    return tz.fromutc(DT(self.us - off.us, tz))


class D(object):
  """date as an integer day number"""
  def __init__(self, days): self.days = days
  def __sub__(self, o): return TD(_us=(self.days - o.days) * 86400 * US)

  def __add__(self, td):
    us = td.us
    return D(self.days + us // (86400 * US))


def load_model_module():
  """a private copy of moment.py whose datetime types are the integer model (the imported `moment`
  used by replays stays untouched)"""
  common.setup_path()
  spec = importlib.util.spec_from_file_location("moment_model", os.path.join(common.GRIST, "moment.py"))
  m = importlib.util.module_from_spec(spec)
  spec.loader.exec_module(m)
  m.timedelta = TD
  m.EPOCH = DT(0)
  m.EPOCH_UTC = DT(0, m.TZ_UTC) if hasattr(m, "TZ_UTC") else DT(0, None)
  m.DATE_EPOCH = D(0)
  return m


def zone_names():
  common.setup_path()
  import moment
  return sorted(moment.get_tz_data())


# ---- the three obligations -------------------------------------------------------------------

def ob_roundtrip(m, name):
  def setup(c):
    c.ts = z3.Int('ts')
    c.solver.add(c.ts >= -RANGE_S, c.ts <= RANGE_S)

  def fn(c):
    Z = m.Zone(name)
    ts = SNum(c.ts)
    dt = m.ts_to_dt.__wrapped__(ts, Z)
    back = m.dt_to_ts(dt)
    return _w(back) != z3.ToReal(c.ts)
  return symlite.explore(fn, setup)


def ob_date(m, name):
  def setup(c):
    c.d = z3.Int('d')
    c.solver.add(c.d >= -100000, c.d <= 100000)

  def fn(c):
    d = D(SNum(c.d))
    ts = m.date_to_ts(d)                       # UTC midnight
    back = m.ts_to_date.__wrapped__(ts)
    return _w(back.days) != c.d
  return symlite.explore(fn, setup)


def ob_local(m, name):
  """a local naive instant is given one of the offsets the zone uses around that instant"""
  def setup(c):
    c.L = z3.Int('L')
    c.solver.add(c.L >= -RANGE_S, c.L <= RANGE_S)

  def fn(c):
    Z = m.Zone(name)
    L = DT(SNum(c.L) * US)
    off = Z.dt_offset(L)                       # concrete TD on each path
    u_ms = (SNum(c.L) * US - off.us) / 1000    # the UTC instant that choice implies, in ms
    k = Z._index(u_ms)                         # real bisect over the zone table
    cands = {Z.offsets[j] for j in (k - 1, k, k + 1) if 0 <= j < len(Z.offsets)}
    chosen = -off.us / (60 * US)
    ok = any(chosen == cnd for cnd in cands)
    return z3.BoolVal(not ok)
  return symlite.explore(fn, setup)


OBS = {"roundtrip": ob_roundtrip, "date": ob_date, "local": ob_local}


def run_zone(name, obs):
  m = load_model_module()
  out = {"zone": name, "obs": {}}
  for ob in obs:
    t0 = time.time()
    r = OBS[ob](m, name)
    r["wall_s"] = round(time.time() - t0, 3)
    out["obs"][ob] = r
  return out


# ---- validation of the integer model against the real datetime -------------------------------

def validate_model(names, rnd):
  """differential pass: the model module on plain ints vs the real moment on real datetimes"""
  common.setup_path()
  import moment
  m = load_model_module()
  bad = []
  n = 0
  for name in names:
    Z, ZM = moment.Zone(name), m.Zone(name)
    pts = [0, 1, -1, 86399, 1e9, -2e9, 4e9]
    for u in Z.untils[:40] + Z.untils[-10:]:
      pts += [u / 1000 - 1, u / 1000, u / 1000 + 1, u / 1000 + 3600]
    pts += [rnd.randrange(-RANGE_S, RANGE_S) for _ in range(10)]
    for ts in pts:
      ts = int(ts)
      if abs(ts) > RANGE_S:
        continue
      n += 1
      real = moment.ts_to_dt(ts, Z)
      mod = m.ts_to_dt.__wrapped__(ts, ZM)
      real_wall = (real.replace(tzinfo=None) - moment.EPOCH).total_seconds()
      if real_wall * US != mod.us or real.utcoffset().total_seconds() * US != mod.utcoffset().us:
        bad.append((name, ts, real_wall, mod.us))
      if moment.dt_to_ts(real) != m.dt_to_ts(mod):
        bad.append((name, ts, "dt_to_ts", moment.dt_to_ts(real), m.dt_to_ts(mod)))
      naive = _dt.datetime(1970, 1, 1) + _dt.timedelta(seconds=ts)
      if Z.dt_offset(naive).total_seconds() * US != ZM.dt_offset(DT(ts * US)).us:
        bad.append((name, ts, "dt_offset"))
  for d in (-100000, -1, 0, 1, 19000, 100000):
    real = moment.date_to_ts(moment.DATE_EPOCH + _dt.timedelta(days=d))
    if real != m.date_to_ts(D(d)):
      bad.append(("date", d))
  return n, bad


# ---- replay -----------------------------------------------------------------------------------

def replay_concrete(w):
  common.setup_path()
  import moment
  Z = moment.Zone(w["zone"])
  ob, v = w["ob"], int(w["value"])
  if ob == "roundtrip":
    back = moment.dt_to_ts(moment.ts_to_dt(v, Z))
    return None if back == v else "zone %s: dt_to_ts(ts_to_dt(%d)) == %r" % (w["zone"], v, back)
  if ob == "date":
    d = moment.DATE_EPOCH + _dt.timedelta(days=v)
    back = moment.ts_to_date(moment.date_to_ts(d))
    return None if back == d else "ts_to_date(date_to_ts(%s)) == %s" % (d, back)
  naive = _dt.datetime(1970, 1, 1) + _dt.timedelta(seconds=v)
  off = Z.dt_offset(naive)
  u_ms = (v - off.total_seconds()) * 1000
  k = Z._index(u_ms)
  cands = {Z.offsets[j] for j in (k - 1, k, k + 1) if 0 <= j < len(Z.offsets)}
  chosen = -off.total_seconds() / 60
  return None if chosen in cands else "zone %s: local %s gets offset %s min, the zone uses %s around that instant" % (
    w["zone"], naive, chosen, sorted(cands))


def replay_cmd(pid, path):
  w = json.load(open(path))
  m = replay_concrete(w)
  if m:
    print("REPRODUCED property=C34 %s" % m)
    return 1
  print("not reproduced")
  return 0


def run(pid, tier, seed):
  ev = common.Evidence(pid, "other", tier, seed)
  names = zone_names()
  rnd = random.Random(seed)
  if tier == "quick":
    common.setup_path()
    import moment
    data = moment.get_tz_data()
    big = sorted(names, key=lambda n: -len(data[n].untils))[:12]
    pick = sorted(set(big + rnd.sample(names, 48) + ["UTC", "America/New_York", "Australia/Lord_Howe", "Asia/Kathmandu"]))
  else:
    pick = names
  nval, badval = validate_model(pick[:80], rnd)
  harness = []
  early = []
  if badval:
    # The model is a transcription of the real code on integers; a disagreement means the real code changed in a way the
    # transcription does not follow.  Before giving up, the property itself is evaluated on the REAL code at the disagreeing
    # instants: if it fails there, that is a replayed violation, not a harness problem.
    for b in badval[:400]:
      if b[0] == "date":
        continue
      for ob in ("roundtrip", "local"):
        w = {"engine": "E3", "zone": b[0], "ob": ob, "value": b[1]}
        msg = replay_concrete(w)
        if msg and len(early) < 20:
          early.append({"sig": {"pid": pid, "ob": ob, "zone": b[0]}, "msg": msg + " (found by the differential pass of the integer model)", "witness": w})
  if badval and not early:
    harness.append("integer datetime model disagrees with the real datetime on %d of %d test instants: %s" % (len(badval), nval, badval[:3]))
  obs = ["roundtrip", "date", "local"]
  tasks = [(n, ["roundtrip", "local"] + (["date"] if i == 0 else [])) for i, n in enumerate(pick)]
  results = common.pmap(run_zone, tasks)
  paths = queries = unknown = 0
  solver_s = 0.0
  violations = list(early)
  rows = []
  obligations = discharged = 0
  for t, (st, r) in zip(tasks, results):
    if st != "ok":
      harness.append("zone %s failed: %s" % (t[0], str(r)[:800]))
      continue
    for ob, o in r["obs"].items():
      obligations += 1
      paths += o["paths"]; queries += o["queries"]; solver_s += o["solver_s"]; unknown += o["unknown"]
      if not o["bad"] and not o["unknown"]:
        discharged += 1
      if len(rows) < 10:
        rows.append({"zone": r["zone"], "obligation": ob, "paths": o["paths"], "queries": o["queries"], "verdict": "unsat on every path" if not o["bad"] else "sat"})
      for model in o["bad"][:3]:
        val = model.get("ts") or model.get("L") or model.get("d")
        w = {"engine": "E3", "zone": r["zone"], "ob": ob, "value": val}
        msg = replay_concrete(w)
        if msg:
          violations.append({"sig": {"pid": pid, "ob": ob, "zone": r["zone"]}, "msg": msg, "witness": w})
        else:
          harness.append("counterexample %s does not reproduce on the real datetime" % (w,))
  ev.cov.update({
    "explanation": "The repository's moment functions are executed on z3 Int-backed numbers; each branch asks z3 which outcomes are "
                   "feasible, every feasible path is followed, and at its end the negated property is checked (unsat = holds for "
                   "every timestamp of that path's region). One obligation = (zone, property); verdicts cover ALL integer "
                   "timestamps in the stated range, not samples.",
    "obligations": obligations, "discharged": discharged, "inconclusive_paths": unknown,
    "checker_cmd": "lib/symlite.py + z3 (QF_LIRA), one solver per path", "trusted_base": ["z3-solver 5.1.0", "lib/symlite.py", "integer datetime model in props/p_c34.py (validated differentially: %d instants)" % nval],
    "evaluations": paths, "distinct_nontrivial": paths, "rule": "one evaluation = one feasible path of the real code (a region of timestamps between two zone transitions); all distinct by construction",
    "samples": rows, "solver_queries": queries, "solver_s": round(solver_s, 2), "zones": len(pick), "zones_total": len(names),
    "functions_executed": common.code_ref(*FILES), "exhaustive": discharged == obligations and not harness,
    "bounds": {"timestamps": "all integers with |ts| <= %d s" % RANGE_S, "days": "|d| <= 100000", "zones": "quick: 12 largest tables + 48 by seed + 4 fixed; thorough: all"},
  })
  ev.assumptions = ["datetime/timedelta/date replaced by exact integer-microsecond arithmetic (total_seconds() exact): restricted to "
                    "integer seconds with |ts| <= 9e9, where the real float computation is exact",
                    "date_to_ts(date, zone) followed by ts_to_dt(.., zone).date() is NOT demanded (DESIGN C34: observation, not claimed)"]
  return common.report(pid, ev, violations, harness)
