"""C35 (E3): SCHEDULE yields exactly the scheduled occurrences, for fixed-length units.

The real Schedule.__init__ (regex parsing of the concrete spec text), Schedule.series, Delta.add_interval /
add_to, _round_down_to_unit and SCHEDULE run on z3-backed integer datetimes (start and end are symbolic
integers, in seconds); the reference set {round_down(start) + k*interval + slot} is an integer formula.
Month- and year-based intervals and time-zone-aware starts are outside the claim (parse errors only)."""
import os, sys, json, time, importlib, datetime as _dt
import z3
import common, symlite
from symlite import SNum, _w

FILES = ["sandbox/grist/functions/schedule.py", "sandbox/grist/functions/date.py"]
UNIT_S = {"weeks": 7 * 86400, "days": 86400, "hours": 3600, "minutes": 60}
UNIT_NAME = {"weeks": "week", "days": "day", "hours": "hour", "minutes": "minute"}
WD = ["Su", "Mo", "Tu", "We", "Th", "Fr", "Sa"]


class TD(object):
  def __init__(self, days=0, seconds=0, microseconds=0, milliseconds=0, minutes=0, hours=0, weeks=0, _s=None):
    self.s = _s if _s is not None else (((weeks * 7 + days) * 24 + hours) * 60 + minutes) * 60 + seconds

  def __add__(self, o): return TD(_s=self.s + o.s) if isinstance(o, TD) else NotImplemented
  __iadd__ = __add__


class DT(object):
  """naive datetime as integer seconds since 1970-01-01 (a Thursday)"""
  tzinfo = None

  def __init__(self, s): self.s = s
  def __add__(self, o): return DT(self.s + o.s)
  def __sub__(self, o): return DT(self.s - o.s) if isinstance(o, TD) else TD(_s=self.s - o.s)
  def __lt__(self, o): return self.s < o.s
  def __gt__(self, o): return self.s > o.s

  def isoweekday(self):
    return (self.s // 86400 + 3) % 7 + 1

  def replace(self, hour=None, minute=None, second=None, microsecond=None):
    s = self.s
    if hour == 0 and minute == 0 and second == 0: return DT(s - s % 86400)
    if hour is None and minute == 0 and second == 0: return DT(s - s % 3600)
    if hour is None and minute is None and second == 0: return DT(s - s % 60)
    if hour is None and minute is None and second is None: return DT(s)
    raise Exception("unsupported replace in the integer model")

  def timetz(self): return ('time', self.s % 86400)

  @staticmethod
  def combine(d, t): return DT(d.s - d.s % 86400 + t[1])


def model_module():
  common.setup_path()
  spec = importlib.util.spec_from_file_location("functions.schedule_model", os.path.join(common.GRIST, "functions", "schedule.py"),
                                                submodule_search_locations=None)
  import functions          # real package, for the relative import of .date
  m = importlib.util.module_from_spec(spec)
  m.__package__ = "functions"
  spec.loader.exec_module(m)
  m.datetime = DT
  m.timedelta = TD
  m.DTIME = lambda x: x
  m.DATEADD = lambda d, months=0: d      # fixed-length units never put months into a Delta (asserted below)
  return m


def specs(tier):
  """[(text, unit, N, [slot offsets in seconds])] - slots increasing and inside one interval"""
  out = []
  for n in ((1, 2, 3) if tier == "thorough" else (1, 2)):
    # days
    for slots, offs in ((["07:30", "21:00"], [27000, 75600]), (["12am", "4pm"], [0, 57600]), (["9am"], [32400]),
                        (["1:05pm", "11:59pm"], [47100, 86340])):
      out.append(("%d-day: %s" % (n, ", ".join(slots)), "days", n, offs))
    if n >= 2:
      out.append(("%d-day: 12am, 4pm, +1d 8am" % n, "days", n, [0, 57600, 86400 + 28800]))
    # hours
    for slots, offs in (([":15", ":45"], [900, 2700]), ([":00"], [0]), ([":59"], [3540])):
      out.append(("%d-hour: %s" % (n, ", ".join(slots)), "hours", n, offs))
    if n >= 2:
      out.append(("%d-hour: :00, +1H :20" % n, "hours", n, [0, 3600 + 1200]))
    # weeks (week starts on Sunday)
    for slots, offs in ((["Mo 9am", "Fr 2pm"], [86400 + 32400, 5 * 86400 + 50400]), (["Su"], [0]), (["Sa 11pm"], [6 * 86400 + 82800]),
                        (["+1d", "+4d"], [86400, 4 * 86400])):
      out.append(("%d-week: %s" % (n, ", ".join(slots)), "weeks", n, offs))
    if n >= 2:
      out.append(("%d-weeks: Mo, +1w Tu" % n, "weeks", n, [86400, 7 * 86400 + 2 * 86400]))
    # minutes: only delta slots
    out.append(("%d-minute: +0S, +30S" % n, "minutes", n, [0, 30]))
  out += [("daily: 07:30, 21:00", "days", 1, [27000, 75600]), ("hourly: :15, :45", "hours", 1, [900, 2700]),
          ("weekly: Mo 9am, Tu 9am, Fr 2pm", "weeks", 1, [86400 + 32400, 2 * 86400 + 32400, 5 * 86400 + 50400])]
  return out


INVALID = ["", "daily", ":", "daily:", "daily: ", "foo: 9am", "0x-day: 9am", "2 day 9am", "daily: Mo", "hourly: 9am",
           "weekly: Jan-15", "weekly: Mox", "daily: +1d +2d", "daily: 9am 10am", "monthly: Mo", "annual: /15", "daily: 9:5", "daily: +1q",
           "1-fortnight: 9am", "daily:, 9am", "3-minute: :15", "daily: 9am,", "-1-day: 9am", "daily: @"]


def check_spec(spec, unit, n, slots_s, counts):
  m = model_module()
  unit_s = UNIT_S[unit]
  res = {"spec": spec, "paths": 0, "queries": 0, "solver_s": 0.0, "bad": [], "unknown": 0}
  sched = m.Schedule(spec)
  if sched._interval._months != 0 or any(s._months != 0 for s in sched._slots):
    res["bad"].append({"note": "months in a fixed-length schedule"})
    return res
  for count in counts:
    def setup(c):
      c.start = z3.Int('start')
      c.end = z3.Int('end')
      c.solver.add(c.start >= -10 ** 10, c.start <= 10 ** 10, c.end >= -10 ** 10, c.end <= 2 * 10 ** 10)

    def fn(c):
      start, end = DT(SNum(c.start)), DT(SNum(c.end))
      out = list(m.SCHEDULE(spec, start=start, count=count, end=end))
      # unit boundary at or before start; weeks start on Sunday and 1970-01-01 was a Thursday
      shift = 4 * 86400 if unit == "weeks" else 0
      base = c.start - (c.start + shift) % unit_s
      conds = []
      prev = None
      for o in out:
        oe = _w(o.s)
        conds += [oe >= c.start, oe <= c.end,
                  z3.Or([z3.And((oe - base - sl) % (n * unit_s) == 0, oe - base - sl >= 0) for sl in slots_s])]
        if prev is not None:
          conds.append(prev < oe)
        prev = oe
      t = z3.Int('t')
      member = z3.Or([z3.And((t - base - sl) % (n * unit_s) == 0, t - base - sl >= 0) for sl in slots_s])
      inwin = z3.And(t >= c.start, t <= c.end, member)
      if len(out) < count:
        miss = z3.And(inwin, z3.And([t != _w(o.s) for o in out]) if out else z3.BoolVal(True))     # everything in the window is returned
      elif out:
        miss = z3.And(inwin, t < _w(out[-1].s), z3.And([t != _w(o.s) for o in out]))              # nothing earlier was skipped
      else:
        miss = z3.BoolVal(False)
      return z3.Or(z3.Not(z3.And(conds)) if conds else z3.BoolVal(False), miss, z3.BoolVal(len(out) > count))
    r = symlite.explore(fn, setup)
    for k in ("paths", "queries", "solver_s", "unknown"):
      res[k] += r[k]
    for b in r["bad"]:
      b["count"] = count
      res["bad"].append(b)
  return res


def replay_concrete(w):
  common.setup_path()
  from functions import schedule as real
  ep = _dt.datetime(1970, 1, 1)
  if w.get("invalid") is not None:
    try:
      list(real.SCHEDULE(w["invalid"], start=ep, count=1))
    except ValueError:
      return None
    except Exception as ex:
      return "invalid schedule %r raises %s instead of ValueError" % (w["invalid"], type(ex).__name__)
    return "invalid schedule %r is accepted" % (w["invalid"],)
  start = ep + _dt.timedelta(seconds=int(w["start"]))
  end = ep + _dt.timedelta(seconds=int(w["end"]))
  got = [int((x.replace(tzinfo=None) - ep).total_seconds()) for x in real.SCHEDULE(w["spec"], start=start, count=w["count"], end=end)]
  unit_s, n = UNIT_S[w["unit"]], w["n"]
  s = int(w["start"])
  base = s - (s + (4 * 86400 if w["unit"] == "weeks" else 0)) % unit_s
  exp = []
  k = 0
  while len(exp) < w["count"] + 5 and k < 10000:
    for sl in w["slots"]:
      t = base + k * n * unit_s + sl
      if s <= t <= int(w["end"]):
        exp.append(t)
    k += 1
    if base + k * n * unit_s > int(w["end"]):
      break
  exp = sorted(exp)[:w["count"]]
  return None if got == exp else "SCHEDULE(%r, start=%s, count=%d, end=%s) returned %s, the schedule's occurrences are %s" % (
    w["spec"], start, w["count"], end, got, exp)


def replay_cmd(pid, path):
  msg = replay_concrete(json.load(open(path)))
  if msg:
    print("REPRODUCED property=C35 %s" % msg)
    return 1
  print("not reproduced")
  return 0


def validate_model():
  """the repository's own docstring examples through the integer model and the real datetime"""
  from functions import schedule as real
  m = model_module()
  ep = _dt.datetime(1970, 1, 1)
  start = _dt.datetime(2018, 9, 4, 14, 0)
  s0 = int((start - ep).total_seconds())
  bad = []
  for spec in ("weekly: Mo 9am, Tu 9am, Fr 2pm", "2-weeks: Mo, +1w Tu", "daily: 07:30, 21:00", "2-day: 12am, 4pm, +1d 8am",
               "hourly: :15, :45", "4-hour: :00, +1H :20, +2H :40"):
    a = [int((x.replace(tzinfo=None) - ep).total_seconds()) for x in real.SCHEDULE(spec, start=start, count=4)]
    b = [x.s for x in m.SCHEDULE(spec, start=DT(s0), count=4)]
    if a != b:
      bad.append((spec, a, b))
  return bad


def run(pid, tier, seed):
  ev = common.Evidence(pid, "other", tier, seed)
  common.setup_path()
  harness = []
  bad = validate_model()
  if bad:
    harness.append("integer datetime model disagrees with the real SCHEDULE on docstring examples: %s" % (bad[:2],))
  sp = specs(tier)
  counts = (0, 1, 2, 3) if tier == "quick" else (0, 1, 2, 3, 4)
  results = common.pmap(check_spec, [(s, u, n, sl, counts) for (s, u, n, sl) in sp])
  violations = []
  paths = queries = unknown = discharged = 0
  solver_s = 0.0
  rows = []
  for (s, u, n, sl), (st, r) in zip(sp, results):
    if st != "ok":
      harness.append("spec %r failed: %s" % (s, str(r)[:600]))
      continue
    paths += r["paths"]; queries += r["queries"]; solver_s += r["solver_s"]; unknown += r["unknown"]
    if not r["bad"] and not r["unknown"]:
      discharged += 1
    if len(rows) < 10:
      rows.append({"spec": s, "paths": r["paths"], "verdict": "unsat on every path" if not r["bad"] else "sat"})
    for b in r["bad"][:2]:
      if "start" not in b:
        harness.append("spec %r: %s" % (s, b)); continue
      w = {"engine": "E3", "spec": s, "unit": u, "n": n, "slots": sl, "start": b["start"], "end": b["end"], "count": b["count"]}
      msg = replay_concrete(w)
      if msg:
        violations.append({"sig": {"pid": pid, "spec": s}, "msg": msg, "witness": w})
      else:
        harness.append("counterexample %s does not reproduce with the real datetime" % (w,))
  ninv = 0
  for txt in INVALID:
    msg = replay_concrete({"invalid": txt})
    ninv += 1
    if msg:
      violations.append({"sig": {"pid": pid, "invalid": txt}, "msg": msg, "witness": {"engine": "E3", "invalid": txt}})
  ev.cov.update({
    "explanation": "Schedule.series and its helpers run on z3 Int-backed datetimes: start and end are symbolic integers (seconds), "
                   "count is enumerated; per path the returned occurrences are compared with the reference set "
                   "{round_down(start, unit) + k*N*unit + slot} as an integer formula (membership, order, bounds, nothing skipped, "
                   "nothing missing). unsat on every path = holds for every start/end.",
    "obligations": len(sp), "discharged": discharged, "inconclusive_paths": unknown,
    "checker_cmd": "lib/symlite.py + z3 (QF_NIA-free: divisors are constants)", "trusted_base": ["z3-solver 5.1.0", "lib/symlite.py", "integer datetime model in props/p_c35.py (validated on the docstring examples)"],
    "evaluations": paths, "distinct_nontrivial": paths, "rule": "one evaluation = one feasible path of Schedule.series for one (spec, count); distinct by construction",
    "samples": rows, "solver_queries": queries, "solver_s": round(solver_s, 2), "invalid_specs_checked": ninv,
    "functions_executed": common.code_ref(*FILES), "exhaustive": discharged == len(sp) and not harness,
    "bounds": {"specs": [s for s, _, _, _ in sp], "count": list(counts), "start/end": "all integers (seconds) with |start| <= 1e10",
               "outside": "month/year intervals, time-zone-aware starts, sub-second starts"},
  })
  ev.assumptions = ["datetime/timedelta replaced by exact integer seconds; DATEADD(months=0) and DTIME are identities on the model"]
  return common.report(pid, ev, violations, harness)
