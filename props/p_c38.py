"""C38 (E4): finite-table equivalence by SMT.  The Python metadata schema (schema.schema_create_actions,
gen_js_schema.get_ts_type, SCHEMA_VERSION, usertypes._type_defaults) and the TypeScript side
(app/common/schema.ts, app/common/gristTypes.ts) are each turned into z3 functions String -> String
(if-then-else chains generated from the current sources); the solver is asked for a key on which they
differ.  unsat = the tables agree; sat = the key is the counterexample, confirmed by running the real
generator and diffing.  This is a decision procedure applied to two finite tables - the weakest use of
the technique in this design."""
import os, re, sys, io, json, time, math, contextlib
import z3
import common

TS_SCHEMA = os.path.join(common.REPO, "app/common/schema.ts")
TS_TYPES = os.path.join(common.REPO, "app/common/gristTypes.ts")
FILES = ["sandbox/grist/schema.py", "sandbox/grist/usertypes.py", "sandbox/gen_js_schema.py",
         "app/common/schema.ts", "app/common/gristTypes.ts"]
ABSENT = "<absent>"


def py_side():
  common.setup_path()
  sys.path.insert(0, os.path.join(common.REPO, "sandbox"))
  import schema, usertypes, gen_js_schema
  types, tstypes, order = {}, {}, {}
  i = 0
  for t in schema.schema_create_actions():
    order["table:" + t.table_id] = str(i); i += 1
    for c in t.columns:
      k = "%s.%s" % (t.table_id, c["id"])
      types[k] = c["type"]
      tstypes[k] = gen_js_schema.get_ts_type(c["type"])
      order[k] = str(i); i += 1
  defaults = {k: canon(v) for k, v in usertypes._type_defaults.items()}
  return {"version": {"SCHEMA_VERSION": str(schema.SCHEMA_VERSION)}, "types": types, "tstypes": tstypes,
          "order": order, "defaults": defaults}


def canon(v):
  if v is None: return "null"
  if v is True: return "true"
  if v is False: return "false"
  if isinstance(v, str): return json.dumps(v)
  if isinstance(v, (int, float)):
    if isinstance(v, float) and math.isinf(v): return "inf" if v > 0 else "-inf"
    return repr(float(v))
  return repr(v)


def canon_ts(lit):
  lit = lit.strip()
  if lit == "null": return "null"
  if lit in ("true", "false"): return lit
  if lit == "Number.POSITIVE_INFINITY": return "inf"
  if lit == "Number.NEGATIVE_INFINITY": return "-inf"
  if lit.startswith('"') or lit.startswith("'"): return json.dumps(lit[1:-1])
  try:
    return repr(float(lit))
  except ValueError:
    return "ts:" + lit


def ts_side():
  src = open(TS_SCHEMA).read()
  m = re.search(r"export const SCHEMA_VERSION = (\d+);", src)
  version = {"SCHEMA_VERSION": m.group(1) if m else ABSENT}
  a = src.index("export const schema = {")
  b = src.index("export interface SchemaTypes {")
  types, tstypes, order = {}, {}, {}
  i = 0
  cur = None
  for line in src[a:b].split("\n")[1:]:
    mt = re.match(r'\s*"(\w+)": \{\s*$', line)
    mc = re.match(r'\s*(\w+)\s*: "([^"]*)",\s*$', line)
    if mt:
      cur = mt.group(1); order["table:" + cur] = str(i); i += 1
    elif mc and cur:
      k = "%s.%s" % (cur, mc.group(1)); types[k] = mc.group(2); order[k] = str(i); i += 1
  cur = None
  for line in src[b:].split("\n")[1:]:
    mt = re.match(r'\s*"(\w+)": \{\s*$', line)
    mc = re.match(r'\s*(\w+): (.*);\s*$', line)
    if mt:
      cur = mt.group(1)
    elif mc and cur:
      tstypes["%s.%s" % (cur, mc.group(1))] = mc.group(2)
  tsrc = open(TS_TYPES).read()
  a = tsrc.index("const _defaultValues")
  b = tsrc.index("};", a)
  defaults = {}
  for line in tsrc[a:b].split("\n")[1:]:
    m = re.match(r"\s*(\w+): \[(.*?),\s*\"[^\"]*\"\],?\s*$", line)
    if m:
      defaults[m.group(1)] = canon_ts(m.group(2))
  return {"version": version, "types": types, "tstypes": tstypes, "order": order, "defaults": defaults}


def as_func(name, table):
  k = z3.String("k")
  body = z3.StringVal(ABSENT)
  for key, val in table.items():
    body = z3.If(k == z3.StringVal(key), z3.StringVal(val), body)
  return k, body


def run(pid, tier, seed):
  ev = common.Evidence(pid, "other", tier, seed)
  py, ts = py_side(), ts_side()
  violations, harness = [], []
  queries = 0
  solver_s = 0.0
  rows = []
  for part in ("version", "types", "tstypes", "order", "defaults"):
    k, fa = as_func("py_" + part, py[part])
    _, fb = as_func("ts_" + part, ts[part])
    s = z3.Solver()
    s.add(fa != fb)
    found = []
    while True:
      t0 = time.time(); r = s.check(); solver_s += time.time() - t0; queries += 1
      if r == z3.unsat:
        break
      if r != z3.sat:
        harness.append("solver answered %s on %s" % (r, part)); break
      key = s.model()[k].as_string()
      found.append(key)
      s.add(k != z3.StringVal(key))
      if len(found) >= 5:
        break
    rows.append({"table": part, "keys_py": len(py[part]), "keys_ts": len(ts[part]), "verdict": "unsat" if not found else "sat",
                 "witness_keys": found})
    for key in found:
      a, b = py[part].get(key, ABSENT), ts[part].get(key, ABSENT)
      # replay: recompute both sides from the files with plain python (no solver)
      if a != b:
        violations.append({"sig": {"pid": pid, "part": part, "key": key},
                           "msg": "%s[%s]: python side %r, TypeScript side %r" % (part, key, a, b),
                           "witness": {"engine": "E4", "part": part, "key": key}})
      else:
        harness.append("solver witness %s/%s does not reproduce" % (part, key))
  # the property also says the file is exactly what the generator produces: byte comparison
  sys.path.insert(0, os.path.join(common.REPO, "sandbox"))
  import gen_js_schema
  buf = io.StringIO()
  with contextlib.redirect_stdout(buf):
    gen_js_schema.main()
  same_bytes = buf.getvalue() == open(TS_SCHEMA).read()
  if not same_bytes and not violations:
    violations.append({"sig": {"pid": pid, "part": "bytes"}, "msg": "app/common/schema.ts differs from the output of sandbox/gen_js_schema.py "
                       "although all table entries agree (formatting / header / extra text)", "witness": {"engine": "E4", "part": "bytes"}})
  n = len(rows)
  ev.cov.update({
    "explanation": "Two finite maps per table (Python side, TypeScript side) are encoded as z3 String->String functions generated "
                   "from the current sources; query: exists key with different images (missing keys map to '<absent>'). unsat for all "
                   "five tables = agreement; a model gives the disagreeing key, which is re-read from both files before reporting. "
                   "Finally the generator's output is compared byte for byte with schema.ts.",
    "obligations": n, "discharged": sum(1 for r in rows if r["verdict"] == "unsat"),
    "checker_cmd": "z3 (python API) String theory, one query per table + blocking", "trusted_base": ["z3-solver 5.1.0", "regex readers of schema.ts / gristTypes.ts in props/p_c38.py"],
    "evaluations": n, "distinct_nontrivial": n, "rule": "one evaluation = one table-equivalence query; all are non-trivial (non-empty tables)",
    "samples": rows, "solver_queries": queries, "solver_s": round(solver_s, 3), "generator_output_identical": same_bytes,
    "functions_executed": common.code_ref(*FILES), "exhaustive": True,
    "bounds": {"tables": {r["table"]: r["keys_py"] for r in rows}},
  })
  ev.assumptions = ["numeric defaults compared by value (0 == 0.0), Number.POSITIVE_INFINITY == float('inf')",
                    "only the cell-value half of gristTypes._defaultValues is compared (the SQL literal half has no Python counterpart)"]
  return common.report(pid, ev, violations, harness)


def replay_cmd(pid, path):
  w = json.load(open(path))
  py, ts = py_side(), ts_side()
  if w["part"] == "bytes":
    print("REPRODUCED property=C38 schema.ts differs from generator output"); return 1
  a, b = py[w["part"]].get(w["key"], ABSENT), ts[w["part"]].get(w["key"], ABSENT)
  if a != b:
    print("REPRODUCED property=C38 %s[%s]: %r vs %r" % (w["part"], w["key"], a, b)); return 1
  print("not reproduced"); return 0
