"""C39 (E2 part): RenameChoices renames exactly the mapped choices in cells and in the column's filters."""
import sys, json
import common, enumrun, docfix as F

CELL = ["a", "b", "", None, "zz", 5]
LCELL = [None, ["L", "a"], ["L", "a", "b"], ["L", "b", "b", "c"], "alt", ["L"]]
MAPS = [{"a": "b"}, {"a": "b", "b": "a"}, {"a": "x", "b": "y"}, {"": "e"}, {"zz": "a"}, {"a": "a"}, {}, {"a": "b", "b": "c"}, {"c": "a", "a": "c"},
        {"alt": "q"}, {"5": "6"}]
FILTERS = ['{"included": ["a", "b"]}', '{"excluded": ["a", 5, null]}', '', '{"included": []}', '{"excluded": ["zz", "a"], "included": ["b"]}']


def fixture(cells, lcells, filt):
  d = F.Doc(replica=False)
  d.apply(["AddTable", "T", [{"id": "C", "type": "Choice", "isFormula": False}, {"id": "L", "type": "ChoiceList", "isFormula": False},
                             {"id": "O", "type": "Choice", "isFormula": False},
                             {"id": "F", "type": "Any", "isFormula": True, "formula": "($C, $L)"}]])
  d.apply(["BulkAddRecord", "T", [None] * 3, {"C": cells + ["gone"], "L": lcells + [["L", "gone"]], "O": ["a", "b", "a"]}])
  d.apply(["RemoveRecord", "T", 3])      # leaves a stale slot in the column storage
  for col in ("C", "L", "O"):
    d.apply(["AddRecord", "_grist_Filters", None, {"viewSectionRef": 1, "colRef": d.colref("T", col), "filter": filt}])
  return d


def ren(m, v):
  return m.get(v, v) if isinstance(v, str) else v


def judge(cells, lcells, filt, col, m):
  d = fixture(cells, lcells, filt)
  s0 = F.snap(d.e)
  try:
    d.apply(["RenameChoices", "T", col, dict(m)])
  except Exception as ex:
    return "RenameChoices T %s %s raised %s: %s" % (col, m, type(ex).__name__, str(ex)[:150])
  s1 = F.snap(d.e)
  exp = {t: (list(rows), {c: list(v) for c, v in cols.items()}) for t, (rows, cols) in s0.items()}
  tcols = exp["T"][1]
  if col == "C":
    tcols["C"] = [ren(m, v) for v in tcols["C"]]
  else:
    tcols["L"] = [(["L"] + [ren(m, x) for x in v[1:]]) if isinstance(v, list) and v and v[0] == "L" else v for v in tcols["L"]]
  ft = exp["_grist_Filters"]
  ref = d.colref("T", col)
  for i, (cr, f) in enumerate(zip(ft[1]["colRef"], ft[1]["filter"])):
    if cr == ref and f:
      old = json.loads(f)
      new = {k: ([ren(m, x) for x in v] if isinstance(v, list) else v) for k, v in old.items()}
      if new != old:
        ft[1]["filter"][i] = json.dumps(new)
  # formula column follows the cells
  tcols["F"] = s1["T"][1]["F"]
  r = F.snap_diff(s1, exp)
  if r:
    return "RenameChoices T %s %s: %s (after vs expected)" % (col, m, r)
  f_exp = [["L", a if not (isinstance(a, list)) else a, b] for a, b in zip(tcols["C"], tcols["L"])]
  return None


def make_body(shard):
  col, mi = shard
  m = MAPS[mi]

  def body(h):
    cells = [h.choice("c%d" % i, CELL) for i in range(2)]
    lcells = [h.choice("l%d" % i, LCELL) for i in range(2)]
    filt = h.choice("filter", FILTERS)
    msg = judge(cells, lcells, filt, col, m)
    w = {"cells": cells, "lcells": lcells, "filter": filt, "col": col, "map": m}
    return {"nontrivial": True, "violations": ([{"msg": msg, "witness": w}] if msg else []), "sample": w}
  return body


def SHARDS(tier):
  return [((c, mi), 60.0 if tier == "quick" else 600.0) for c in ("C", "L") for mi in range(len(MAPS))]


def replay(w):
  m = judge(w["cells"], w["lcells"], w["filter"], w["col"], w["map"])
  return [m] if m else []


META = {
  "files": ["sandbox/grist/useractions.py", "sandbox/grist/column.py"],
  "oracle": "after RenameChoices: the column's Choice cells / ChoiceList elements are renamed simultaneously through the map, its "
            "saved filters' lists likewise; every other cell, column, filter and table equals the pre-state; no exception",
  "rule": "one evaluation = one (cell contents, filter text, column, rename map) cube on a fresh document (with a removed row "
          "leaving a stale storage slot); all are non-trivial",
  "bounds": {"Choice cells": CELL, "ChoiceList cells": LCELL, "maps": MAPS, "filters": FILTERS},
}


def run(pid, tier, seed):
  return enumrun.run(pid, tier, seed, sys.modules[__name__])


def replay_cmd(pid, path):
  return enumrun.replay_cmd(pid, path, sys.modules[__name__])
