"""C41: fetch_table with a query returns exactly the matching rows (E2-enum + naive filter)."""
import sys
import os
import common, enumrun, docfix as F
QUICK = os.environ.get("VERIF_TIER", "quick") != "thorough"

CELLS_A = ["x", "y", None, "", ["L", "x"], 5]
CELLS_B = [1, 2, None, "alt", 1.5]
QA = [None, ["x"], ["x", "y"], [None], [["L", "x"]], ["zz"], [], ["x", ["L", "x"]], [5, ""]]
QB = [None, [1], [1, 2], ["alt", None], [1.5], [True]]


def fixture(a, b):
  d = F.Doc(replica=False)
  d.apply(["AddTable", "T", [{"id": "A", "type": "Any", "isFormula": False}, {"id": "B", "type": "Int", "isFormula": False},
                             {"id": "F", "type": "Any", "isFormula": True, "formula": "$B"},
                             {"id": "gristHelper_Display", "type": "Any", "isFormula": True, "formula": "$A"}]])
  d.apply(["BulkAddRecord", "T", [None] * len(a), {"A": a, "B": b}])
  return d


def _in(v, values):
  ev = F.enc(v)
  for q in values:
    try:
      if ev == q and (type(ev) == type(q) or not isinstance(ev, bool) and not isinstance(q, bool)):
        return True
    except Exception:
      pass
  return False


HIST = [None, [["RemoveRecord", "T", 2]], [["RemoveRecord", "T", 3]], [["BulkRemoveRecord", "T", [1, 3]]],
        [["RemoveRecord", "T", 3], ["AddRecord", "T", None, {"A": "x"}]], [["RemoveRecord", "T", 2], ["AddRecord", "T", 2, {"A": "y"}]]]
QID = [None, [1, 2, 3, 4], [3], [2, 3], [0, 7], [3, 3, 1], [2]]


def judge(a, b, qa, qb, formulas, private, hist=None, qid=None):
  d = fixture(a, b)
  for ua in (hist or []):
    d.apply(list(ua))
  query = {}
  if qid is not None: query["id"] = list(qid)
  if qa is not None: query["A"] = [tuple(x[1:]) if isinstance(x, list) and x and x[0] == "L" else x for x in qa]
  if qb is not None: query["B"] = list(qb)
  full = d.e.fetch_table("T", formulas=True, private=True)
  try:
    got = d.e.fetch_table("T", formulas=formulas, private=private, query=query or None)
  except Exception as ex:
    return "fetch_table(query=%s) raised %s: %s" % (query, type(ex).__name__, str(ex)[:120])
  exp_rows = []
  for i, r in enumerate(full.row_ids):
    ok = True
    for c, values in query.items():
      cell = r if c == "id" else full.columns[c][i]
      if not any(_same(cell, q) for q in values):
        ok = False
    if ok:
      exp_rows.append(r)
  if list(got.row_ids) != exp_rows:
    return "fetch_table(query=%s) returned rows %s, a naive filter gives %s (A=%s B=%s)" % (query, list(got.row_ids), exp_rows, a, b)
  exp_cols = {"manualSort", "A", "B"} | ({"F"} if formulas else set())
  if set(got.columns) - {"gristHelper_Display"} != exp_cols:
    return "fetch_table(formulas=%s, private=%s) returned columns %s" % (formulas, private, sorted(got.columns))
  for c in got.columns:
    vals = [F.enc(full.columns[c][full.row_ids.index(r)]) for r in exp_rows]
    if not F.eq([F.enc(x) for x in got.columns[c]], vals):
      return "fetch_table(query=%s) column %s = %s, expected %s" % (query, c, got.columns[c], vals)
  return None


def _same(cell, q):
  try:
    return cell == q            # Python equality, as set/list membership uses (True == 1)
  except Exception:
    return False


def make_body(shard):
  formulas, private, part = shard

  def body(h):
    hist = qid = None
    if part == "id":
      # queries on the row id after removals (removed rows keep their slots in the columns) and re-adds
      hist = h.choice("hist", HIST)
      qid = h.choice("qid", QID[1:])
      qa = h.choice("qa", [None, ["x"], [None, ""]])
      qb = h.choice("qb", [None, [1], [0]])
      a = [h.choice("a0", CELLS_A[:3]), "x", "y"]
      b = [1, 2, 1]
    else:
      qa = QA[part]
      qb = h.choice("qb", QB)
      a = ([h.choice("a%d" % i, CELLS_A) for i in range(2)] if qa is not None else ["x", "y"]) + ["x"]
      b = ([h.choice("b%d" % i, CELLS_B) for i in range(1 if QUICK else 2)] + ([2] if QUICK else []) if qb is not None else [1, 2]) + [1]
    msg = judge(a, b, qa, qb, formulas, private, hist, qid)
    w = {"a": a, "b": b, "qa": qa, "qb": qb, "formulas": formulas, "private": private, "hist": hist, "qid": qid}
    return {"nontrivial": qa is not None or qb is not None or qid is not None, "violations": ([{"msg": msg, "witness": w}] if msg else []), "sample": w}
  return body


def SHARDS(tier):
  parts = list(range(len(QA))) + ["id"]
  flags = [(True, False), (False, True)] if tier == "quick" else [(f, p) for f in (True, False) for p in (False, True)]
  return [((f, p, part), 100.0 if tier == "quick" else 600.0) for f, p in flags for part in parts]


def replay(w):
  m = judge(w["a"], w["b"], w["qa"], w["qb"], w["formulas"], w["private"], w.get("hist"), w.get("qid"))
  return [m] if m else []


META = {
  "files": ["sandbox/grist/engine.py"],
  "oracle": "rows == naive filter (cell, or the row id for an 'id' query, == one of the requested values of every queried column, Python equality) in row id "
            "order; columns per formulas flag; cell values equal the unfiltered fetch",
  "rule": "one evaluation = one (cell contents of two columns, query dict, flags) cube; non-trivial = a query was given",
  "bounds": {"cells A (Any)": CELLS_A, "cells B (Int)": CELLS_B, "query A": QA, "query B": QB, "rows": 3,
             "query id": QID[1:], "history before an id query (removals, re-adds)": HIST,
             "flags": "quick: (formulas, not private), (no formulas, private); thorough: all four"},
}


def run(pid, tier, seed):
  return enumrun.run(pid, tier, seed, sys.modules[__name__])


def replay_cmd(pid, path):
  return enumrun.replay_cmd(pid, path, sys.modules[__name__])
