"""C05 C06 C07: E2-enum over edit histories with a second engine as the oracle.
C05: incremental == from scratch (fresh engine loaded without stored formula results)
C06: formula values independent of the order in which dirty columns are evaluated (schedule = hole)
C07: reload from the engine's own report + Calculate emits nothing and reports the same data"""
import os, json, re, subprocess, math
import common, enumz3, bundles as B, docfix as F

FILES = {
  "C05": ["sandbox/grist/engine.py", "sandbox/grist/depend.py", "sandbox/grist/relation.py", "sandbox/grist/lookup.py",
          "sandbox/grist/table.py", "sandbox/grist/column.py", "sandbox/grist/records.py", "sandbox/grist/twowaymap.py"],
  "C06": ["sandbox/grist/engine.py"],
  "C07": ["sandbox/grist/engine.py", "sandbox/grist/main.py", "sandbox/grist/objtypes.py", "sandbox/grist/column.py"],
}
NPERM = 24 if os.environ.get('VERIF_TIER') == 'thorough' else 4


def kth_permutation(items, k):
  items = list(items)
  out = []
  k = k % math.factorial(len(items)) if items else 0
  while items:
    f = math.factorial(len(items) - 1)
    out.append(items.pop(k // f))
    k %= f
  return out


def install_permuter(e, perm):
  orig = e._make_sorted_work_items

  def wrapped(nodes):
    items = orig(nodes)
    look = [w for w in items if w.node.col_id.startswith('#lookup')]
    rest = [w for w in items if not w.node.col_id.startswith('#lookup')]
    return kth_permutation(rest, perm) + look       # processed from the end: lookup indexes first
  e._make_sorted_work_items = wrapped


def formula_view(d):
  """encoded values of the formula columns of user tables (C05 compares these)"""
  out = {}
  for t in d.user_tables():
    data = d.e.fetch_table(t)
    sc = d.e.schema[t].columns
    out[t] = (list(data.row_ids), {c: [F.enc(v) for v in vs] for c, vs in data.columns.items()
                                  if c in sc and sc[c].isFormula})
  return out


def fresh_view(e2, d):
  out = {}
  for t in d.user_tables():
    data = e2.fetch_table(t)
    sc = d.e.schema[t].columns
    out[t] = (list(data.row_ids), {c: [F.enc(v) for v in vs] for c, vs in data.columns.items()
                                  if c in sc and sc[c].isFormula})
  return out


def _blur_errors(view):
  """error cells are compared as 'an error' only: evaluation at load time and incremental evaluation
  legitimately raise different exception classes/messages for the same broken formula (DESIGN C05)"""
  return {t: (rows, {c: [["E"] if (isinstance(v, list) and v and v[0] == "E") else v for v in vs]
                     for c, vs in cols.items()}) for t, (rows, cols) in view.items()}


def check_c05(d):
  e2, _ = F.fresh_from(d.e, with_formulas=False)
  return F.snap_diff(_blur_errors(fresh_view(e2, d)), _blur_errors(formula_view(d)))


def check_c07(d):
  e3, ag3 = F.fresh_from(d.e, with_formulas=True)
  if ag3.stored:
    return "Calculate after reload emits %s" % (F.stored_reprs(ag3)[:2],)
  # error cells compared as "an error": a formula that reads an error cell of another column reports a
  # different exception class once that cell has been through encode/decode (the stored error no longer
  # carries the live exception object)
  # Data columns (incl. trigger-formula columns, whose error cells are stored) must come back exactly.
  r = F.snap_diff(_blur_formula_errors(F.snap(e3), d.e), _blur_formula_errors(F.snap(d.e), d.e))
  return ("reloaded engine reports different data: " + r) if r else None


def _blur_formula_errors(view, e):
  out = {}
  for t, (rows, cols) in view.items():
    sc = e.schema[t].columns if t in e.schema else {}
    out[t] = (rows, {c: ([["E"] if (isinstance(v, list) and v and v[0] == "E") else v for v in vs]
                         if (c in sc and sc[c].isFormula) else vs) for c, vs in cols.items()})
  return out


def run_history(d, uas, want, perm=None, base=None):
  """apply uas one bundle each; returns (applied list, violations [(pid, msg)])"""
  out = []
  applied = []
  for ua in uas:
    try:
      d.apply(ua)
    except Exception:
      continue
    applied.append(ua)
    if "C05" in want:
      r = check_c05(d)
      if r:
        out.append(("C05", "after %s: fresh engine vs incremental: %s" % (ua[0], r)))
    if "C07" in want:
      r = check_c07(d)
      if r:
        out.append(("C07", "after %s: %s" % (ua[0], r)))
  if "C06" in want and applied and perm is not None:
    d2 = base.restore() if base is not None else F.build(d.fixture)
    install_permuter(d2.e, perm)
    ok = True
    for ua in applied:
      try:
        d2.apply(ua)
      except Exception as ex:
        out.append(("C06", "bundle %s succeeded under the default order but raised %s under permutation %d" % (ua, type(ex).__name__, perm)))
        ok = False
        break
    if ok:
      r = F.snap_diff(F.snap(d2.e, user_only=True), F.snap(d.e, user_only=True))
      if r:
        out.append(("C06", "evaluation order %d changes results: %s" % (perm, r)))
  return applied, out


def make_body(base, first_kind, nacts, size1, size2, want):
  ks = first_kind.split("+")
  pools1 = F.Pools(size1, kinds=[ks[0]])
  pools_n = F.Pools(size2, kinds=[ks[1]] if len(ks) > 1 else None)

  def body(h):
    d = base.restore()
    # the history is generated step by step from the current state
    uas, viol, applied_all = [], [], []
    for i in range(nacts):
      ua = F.gen_action(h, d, "a%d." % i, pools1 if i == 0 else pools_n)
      uas.append(ua)
      applied, out = run_history(d, [ua], want - {"C06"})
      applied_all += applied
      for pid, msg in out:
        viol.append({"pid": pid, "msg": msg, "history": list(uas), "gbf": F.summary_groupby_formula(d.e)})
    perm = None
    if "C06" in want and applied_all:
      perm = h.int("perm", 1, NPERM)
      _, out = run_history_c06(base, d, applied_all, perm)
      for pid, msg in out:
        viol.append({"pid": pid, "msg": msg, "history": list(uas), "perm": perm})
    return {"nontrivial": bool(applied_all), "violations": viol,
            "sample": {"history": uas, "applied": len(applied_all), "perm": perm}}
  return body


def run_history_c06(base, d, applied, perm):
  out = []
  d2 = base.restore()
  install_permuter(d2.e, perm)
  for ua in applied:
    try:
      d2.apply(ua)
    except Exception as ex:
      out.append(("C06", "bundle %s succeeded under the default order but raised %s under permutation %d" % (ua, type(ex).__name__, perm)))
      return None, out
  # the property speaks of formula columns (and of nothing else changing): formula columns are compared
  # exactly (errors as errors), plain data columns exactly, trigger-formula data columns are left out (the
  # value an error cell remembers as user input depends on what was there when it fired)
  r = F.snap_diff(_blur_errors(formula_view(Dv(d2.e, d))), _blur_errors(formula_view(d)))
  if r:
    out.append(("C06", "evaluation order %d changes results: %s" % (perm, r)))
  # "the stored actions differ at most in order": under either order the stored actions carry every change, i.e.
  # replayed into the independent interpreter (TableDataSet) they reproduce the respective engine's state
  r = F.check_replica(d2)
  if r:
    out.append(("C06", "evaluation order %d: stored actions do not carry all changes: %s" % (perm, r)))
  return None, out


class Dv(object):
  """view of a second engine with the first document's helpers"""
  def __init__(self, e, d):
    self.e = e
    self._d = d

  def user_tables(self):
    return [t for t in self._d.user_tables() if t in self.e.tables]


def run_shard(pid, fixture, first_kind, nacts, size1, size2, seed, max_s):
  B.warm_up()
  d = F.build(fixture)
  body = make_body(F.Saved(d), first_kind, nacts, size1, size2, {pid})
  res = enumz3.allsat(body, seed=seed, max_s=max_s)
  return {"shard": {"fixture": fixture, "first_kind": first_kind, "nacts": nacts, "pools1": size1, "pools2": size2},
          "runs": res.runs, "exhaustive": res.exhaustive, "solver_s": res.solver_s, "queries": res.queries,
          "nontrivial": res.nontrivial, "outputs": res.outputs, "errors": res.errors, "samples": res.samples,
          "stopped": res.stopped}


EDIT_KINDS = F.RECORD_KINDS + ["AddColumn", "RemoveColumn", "RenameColumn", "ModifyType", "ModifyFormula"]


def plan(pid, tier):
  shards = []
  if tier == "quick":
    fx1 = {"C05": [("lookup", "small"), ("basic", "small"), ("summary", "small"), ("twoway", "small"), ("cycles", "small")],
           "C06": [("cycles", "small"), ("basic", "tiny")],
           "C07": [("types", "med"), ("basic", "small"), ("summary", "small"), ("twoway", "small"), ("trigger2", "small")]}[pid]
    for fx, size in fx1:
      for k in F.ALL_KINDS:
        shards.append((fx, k, 1, size, size, None))
    fx2 = {"C05": "lookup", "C06": "cycles", "C07": "types"}[pid]
    pairs = []
    for k in EDIT_KINDS:
      for k2 in EDIT_KINDS:
        pairs.append((fx2, k + "+" + k2, 2, "micro", "micro", 6.0 if pid == "C06" else 20.0))
    shards = pairs + shards
  else:
    for fx in ("lookup", "basic", "summary", "twoway", "cycles", "types", "trigger", "trigger2", "cascade", "views"):
      for k in F.ALL_KINDS:
        shards.append((fx, k, 1, "full", "full", None))
        for k2 in EDIT_KINDS:
          shards.append((fx, k + "+" + k2, 2, "micro", "micro", 120.0))
        shards.append((fx, k, 3, "micro", "micro", 120.0))
  return shards


def replay_cmd(pid, path):
  with open(path) as f:
    w = json.load(f)
  d = F.build(w["fixture"])
  base = F.Saved(d)
  d = base.restore()
  hits = []
  applied_all = []
  for ua in w["history"]:
    applied, out = run_history(d, [ua], {pid} - {"C06"})
    applied_all += applied
    hits += [m for p, m in out if p == pid]
  if pid == "C06" and applied_all:
    _, out = run_history_c06(base, d, applied_all, w.get("perm", 1))
    hits += [m for p, m in out if p == pid]
  if hits:
    print("REPRODUCED property=%s %s" % (pid, hits[0][:500]))
    return 1
  print("not reproduced property=%s" % pid)
  return 0


ORACLE = {
  "C05": "after every bundle of the history: a fresh Engine loaded (load_meta_tables, load_table, load_done, Calculate) with the "
         "reported metadata and data columns but no stored formula results computes, for every formula column of every user "
         "table, the same encoded values as the incrementally maintained engine",
  "C06": "the same history applied to a second engine whose Engine._make_sorted_work_items result is permuted (k-th permutation "
         "of the non-lookup work items, lookup indexes kept first) yields the same formula-column values, and the stored actions "
         "emitted under that order, replayed into the independent TableDataSet interpreter, reproduce that engine's state "
         "(stored actions differ at most in order)",
  "C07": "fetch_table of every table -> encode -> marshal -> main._decode_db_value -> fresh engine load + Calculate: no stored "
         "actions, identical snapshot of all tables",
}


def run(pid, tier, seed):
  ev = common.Evidence(pid, "exploration", tier, seed)
  pl = plan(pid, tier)
  args = [(pid, fx, k, n, s1, s2, seed, common.fit_cap(ms, len(pl), tier)) for (fx, k, n, s1, s2, ms) in pl]
  results = common.pmap(run_shard, args)
  runs = nontriv = queries = 0
  solver_s = 0.0
  harness, cand, not_ex = [], {}, []
  known = common.load_known()
  for a, (st, r) in zip(args, results):
    if st != "ok":
      harness.append("shard %s failed: %s" % (a[1:4], str(r)[:1500]))
      continue
    runs += r["runs"]; nontriv += r["nontrivial"]; solver_s += r["solver_s"]; queries += r["queries"]
    if not r["exhaustive"]:
      not_ex.append({"shard": r["shard"], "runs": r["runs"], "stopped": r["stopped"]})
    for e in r["errors"]:
      harness.append("shard %s: %s" % (a[1:4], str(e)[-700:]))
    ev.add_samples(r["samples"][:1], cap=10)
    for o in r["outputs"]:
      for v in o["violations"]:
        if v["pid"] != pid:
          continue
        msg = re.sub(r"0x[0-9a-f]+", "0x", v["msg"])
        sig = {"pid": pid, "fixture": a[1], "kinds_str": " ".join(u[0] + (":" + u[1] if str(u[1]).startswith("_grist_") else "") for u in v["history"]),
               "msg": msg[:400], "history": json.dumps(v["history"], default=repr), "groupby_formula": bool(v.get("gbf"))}
        kf = common.match_known(pid, sig, known)
        key = (kf["id"],) if kf else (sig["kinds_str"], re.sub(r"[\d.]+", "#", msg)[:90], a[1])
        if key not in cand:
          cand[key] = {"sig": sig, "msg": v["msg"],
                       "witness": {"fixture": a[1], "history": v["history"], "perm": v.get("perm"), "oracle": pid}}
  if os.environ.get("VERIF_DUMP"):
    with open(os.environ["VERIF_DUMP"], "w") as f:
      for key, v in cand.items():
        f.write(json.dumps({"key": key, "msg": v["msg"], "w": v["witness"]}, default=repr) + "\n")
  confirmed = []
  for key, v in list(cand.items())[:60]:
    p = common.save_replay(pid, v["witness"])
    rp = subprocess.run([os.path.join(common.VERIF, "vcheck"), "replay", pid, p], capture_output=True, text=True, timeout=300)
    if rp.returncode == 1:
      confirmed.append(v)
    else:
      harness.append("counterexample did not reproduce natively: %s :: %s" % (p, (rp.stdout + rp.stderr)[-300:]))
      os.remove(p)
  ev.cov.update({
    "evaluations": runs, "distinct_nontrivial": nontriv,
    "rule": "one evaluation = one cube of the history holes (action kinds, targets, rows, payloads, formulas%s) run on the real "
            "engine and compared with a second engine; non-trivial = at least one bundle of the history was accepted" %
            (", schedule permutation index" if pid == "C06" else ""),
    "exhaustive": not not_ex and not harness, "mode": "E2-enum",
    "shards": len(args), "shards_not_exhausted": not_ex[:20],
    "solver": "z3 %s" % __import__("z3").get_version_string(), "solver_queries": queries, "solver_s": round(solver_s, 2),
    "oracle": ORACLE[pid], "functions_executed": common.code_ref(*FILES[pid]),
    "bounds": {"tier": tier, "shard_shapes": sorted({"%s/%d actions/pools %s+%s" % (a[1], a[3], a[4], a[5]) for a in args}),
               "pools": {k: getattr(F.Pools, k.upper()) for k in sorted({a[4] for a in args} | {a[5] for a in args})},
               "formula programs": "the formulas of the fixtures (lib/docfix.py) plus the formula pool; enumerated, not symbolic",
               "schedules": ("%d permutation indices applied to every work list" % (NPERM - 1)) if pid == "C06" else None},
    "candidates": len(cand), "replayed_confirmed": len(confirmed),
  })
  ev.assumptions = [common.SHIM_ASSUMPTION, "cells compared in encoded form (1 == 1.0, NaN == NaN)",
                    "SQLite layer reduced to: non-primitive cells stored as marshal of their encoding, primitives as is",
                    "cube generalisation: a run's behaviour depends only on the holes it read"]
  return common.report(pid, ev, confirmed, harness)
