"""Generic runner for E1 (CrossHair unit) properties: harness module props/h_<pid>.py."""
import os, sys, json, importlib
import common, chunit

TIER_SCALE = {"quick": 1, "thorough": 3}


def harness_path(pid):
  return os.path.join(common.VERIF, "props", "h_%s.py" % pid.lower())


def run(pid, tier, seed):
  os.environ["VERIF_TIER"] = tier
  hp = harness_path(pid)
  common.setup_path()
  sys.path.insert(0, os.path.join(common.VERIF, "props"))
  mod = chunit.load_harness(hp)
  # a harness without symbolic obligations is a pure solver-driven enumeration: level "exploration"
  ev = common.Evidence(pid, getattr(mod, "LEVEL", "other"), tier, seed)
  obs = []
  for ob in mod.OBLIGATIONS:
    ob = dict(ob)
    ob["cond_timeout"] = ob["cond_timeout"] * TIER_SCALE.get(tier, 1)
    obs.append(ob)
  violations, harness = chunit.run(pid, hp, obs, tier, ev)
  if hasattr(mod, "ENUM"):
    ev2, eh = chunit.run_enum(pid, hp, mod.ENUM, ev)
    violations += ev2
    harness += eh
  extra_v, extra_h = ([], [])
  if hasattr(mod, "extra_checks"):
    extra_v, extra_h = mod.extra_checks(tier, seed, ev)
  violations += extra_v
  harness += extra_h
  enum_rows = ev.cov.get("enumerated_obligations", [])
  ev.cov["obligations"] += len(enum_rows)
  ev.cov["discharged"] += sum(1 for r in enum_rows if r["exhaustive"])
  n = ev.cov["obligations"]
  ev.cov.update({
    "explanation": "Each obligation is a function over typed symbolic arguments that calls the real repository "
                   "function(s) and returns whether the property holds; CrossHair executes it symbolically (z3) and "
                   "either exhausts all paths within the stated bounds ('confirmed'), returns a counterexample "
                   "(replayed with plain Python before it is reported) or gives up ('inconclusive', not counted). "
                   "A reachability twin (post: False) per obligation guards against vacuity.",
    "evaluations": n, "distinct_nontrivial": ev.cov["discharged"],
    "rule": "one evaluation = one obligation checked symbolically over all its paths; non-trivial = confirmed over "
            "all paths with a refuted reachability twin",
    "samples": [{"obligation": r["obligation"], "desc": r["desc"], "verdict": r["verdict"], "twin": r["twin"]}
                for r in ev.cov["obligation_results"]][:12],
    "bounds": getattr(mod, "BOUNDS", {}),
    "functions_executed": common.code_ref(*getattr(mod, "FILES", [])),
    "exhaustive": ev.cov["discharged"] == n,
  })
  ev.cov["samples"] += [{"obligation": r["obligation"], "mode": r["mode"], "runs": r["runs"], "exhaustive": r["exhaustive"], "first_cases": r["samples"]}
                        for r in enum_rows][:12]
  if ev.level == "exploration":
    ev.cov["evaluations"] = sum(r["runs"] for r in enum_rows)
    ev.cov["distinct_nontrivial"] = sum(r.get("nontrivial_runs", 0) for r in enum_rows)
    ev.cov["rule"] = ("one evaluation = one cube of the obligation's finite argument domains (z3 AllSAT with cube blocking: every cube is distinct), run "
                      "natively through the real functions; non-trivial = the arguments satisfy the obligation's precondition")
    ev.cov["exhaustive"] = all(r["exhaustive"] for r in enum_rows)
  ev.assumptions = list(getattr(mod, "ASSUMPTIONS", [])) + [
    "floats use CrossHair's real-arithmetic model unless an obligation says otherwise (lib/ch_plugin.py)"]
  return common.report(pid, ev, violations, harness)


def replay_cmd(pid, path):
  with open(path) as f:
    w = json.load(f)
  if w.get("engine") == "E1":
    return chunit.replay_cmd(pid, path)
  mod = chunit.load_harness(harness_path(pid))
  return mod.replay_extra(pid, w)
