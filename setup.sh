#!/bin/bash
# Build the overlay venv /verif/.venv (idempotent, offline).  /venv's site-packages are visible
# through a .pth; crosshair-tool, z3-solver and cvc5 come from the offline wheelhouse.
set -e
cd "$(dirname "$0")"
OV=/verif/.venv
if [ -x $OV/bin/python ] && $OV/bin/python -c "import crosshair, z3, cvc5, jsonschema" 2>/dev/null; then
  exit 0
fi
exec 9>/verif/.venv.lock
flock 9
if [ -x $OV/bin/python ] && $OV/bin/python -c "import crosshair, z3, cvc5, jsonschema" 2>/dev/null; then
  exit 0
fi
rm -rf $OV
/venv/bin/python -m venv $OV
echo /venv/lib/python3.12/site-packages > $OV/lib/python3.12/site-packages/base.pth
PIP_NO_INDEX=1 $OV/bin/pip install -q --no-index --find-links /opt/veriftools/wheels crosshair-tool z3-solver cvc5 jsonschema >/dev/null
$OV/bin/python -c "import crosshair, z3, cvc5, jsonschema"
