import linecache
class _Cache(object):
  def add(self, filename, source):
    lines = [l + "\n" for l in source.splitlines()]
    linecache.cache[filename] = (len(source), None, lines, filename)
cache = _Cache()
