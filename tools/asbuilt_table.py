#!/usr/bin/env python3
"""Rewrites the 'as built' table of DESIGN.md section 9 (between the ASBUILT markers) from MANIFEST.json and the evidence files."""
import json, os
HERE = os.path.dirname(os.path.dirname(os.path.abspath(__file__)))
m = json.load(open(os.path.join(HERE, "MANIFEST.json")))
rows = ["| property | level | deciding method (short) | quick run: evaluations / obligations, exhaustive?, wall |", "|---|---|---|---|"]
for c in m["checks"]:
  pid = c["property_id"]
  ev = {}
  p = os.path.join(HERE, "evidence", pid + ".json")
  if os.path.exists(p):
    ev = json.load(open(p))
  cov = ev.get("coverage", {})
  tech = c["technique"].split(":")[0]
  meas = "%s evaluations (%s non-trivial)" % (cov.get("evaluations"), cov.get("distinct_nontrivial"))
  if cov.get("obligations") is not None:
    meas += ", %s/%s obligations discharged" % (cov.get("discharged"), cov.get("obligations"))
  meas += ", exhaustive=%s, %ss (%s, seed %s)" % (cov.get("exhaustive"), ev.get("wall_s"), ev.get("tier"), ev.get("seed"))
  rows.append("| %s | %s | %s | %s |" % (pid, c["level_claimed"]["category"], tech, meas))
for n in m["not_applicable"]:
  rows.append("| %s | not applicable | - | %s |" % (n["property_id"], n["reason"][:160]))
table = "\n".join(rows)
p = os.path.join(HERE, "DESIGN.md")
s = open(p).read()
a, b = "<!-- ASBUILT-BEGIN -->", "<!-- ASBUILT-END -->"
s = s[:s.index(a) + len(a)] + "\n" + table + "\n" + s[s.index(b):]
open(p, "w").write(s)
print("as-built table:", len(rows) - 2, "rows")
