#!/verif/.venv/bin/python
"""calibration helper: run one CrossHair obligation (and optionally its twin) exactly as chunit does.
usage: tools/ch1.py props/h_c24.py func [cond_timeout] [tier] [twin]"""
import sys, os, json
sys.path.insert(0, os.path.join(os.path.dirname(os.path.abspath(__file__)), "..", "lib"))
import common, chunit
path, func = os.path.abspath(sys.argv[1]), sys.argv[2]
to = int(sys.argv[3]) if len(sys.argv) > 3 else 60
tier = sys.argv[4] if len(sys.argv) > 4 else "quick"
twin = len(sys.argv) > 5
r = chunit._run_one(path, func, tier, to, 30, twin)
raw = r.pop("raw", "")
print(json.dumps(r, indent=1, default=repr)); print(raw[-600:])
