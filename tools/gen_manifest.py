#!/usr/bin/env python3
"""Regenerates /verif/MANIFEST.json from the table below and validates it against the schema."""
import json, os, sys
HERE = os.path.dirname(os.path.dirname(os.path.abspath(__file__)))

E2 = "E2-enum: z3 AllSAT over action-template holes with read-set cube blocking; each cube = one native run of the real engine; final unsat certifies coverage of the bounded space"
CHECKS = {
  # pid: (category, technique, text, note, design_ref)
  "C01": ("exploration", E2,
          "Every bundle in a bounded template space (1 action with full pools; 2-3 actions with small pools; 5-8 fixtures) is run on the real engine; "
          "the returned undo is applied and all tables incl. metadata must equal the pre-state; histories are undone in reverse. "
          "Exhaustive within the stated pools when evidence says exhaustive=true; says nothing outside them.",
          "fixtures <= 3 user tables / <= 4 rows; pools of names/types/values/formulas; friendly_traceback stand-in; encoded-cell equality", "C01"),
  "C02": ("exploration", E2,
          "Same bundle space; every stored action since InitNewDoc is replayed into the repository's TableDataSet interpreter, which must equal the engine after every bundle.",
          "same bounds as C01; replica = sandbox/grist/table_data_set.py", "C02"),
  "C03": ("exploration", E2,
          "Same bundle space; after undo, ApplyDocActions(stored) must reproduce the post-bundle snapshot.",
          "same bounds as C01", "C03"),
  "C08": ("exploration", E2,
          "Same bundle space incl. rejected bundles; after success and after rollback build_schema(metadata)==engine.schema, unique (table,colId), no orphan column records.",
          "same bounds as C01", "C08"),
  "C31": ("exploration", E2,
          "Record-edit bundles on documents with formulas and summary tables; direct flags checked against the property's three clauses.",
          "same bounds as C01 restricted to record edits + column adds/type changes", "C31"),
}
NOT_APPLICABLE = {
  "C30": "The quantified variable is CPython's per-process hash seed, fixed before repository code runs; set/dict iteration order cannot be made a solver variable by executing /repo's functions symbolically. Cross-process diffing is sampling, a different technique.",
}
PENDING = "check not built yet in this session (see DESIGN.md section 3 for the planned solver-based obligation); not claimed until it exists"

def main():
  props = [json.loads(l) for l in open(os.path.join(HERE, "properties.jsonl"))]
  checks = []
  na = []
  for p in props:
    pid = p["id"]
    if pid in CHECKS:
      cat, tech, text, note, ref = CHECKS[pid]
      checks.append({
        "property_id": pid,
        "quick_cmd": "./vcheck %s --tier quick" % pid,
        "thorough_cmd": "./vcheck %s --tier thorough" % pid,
        "evidence_file": "evidence/%s.json" % pid,
        "replay_cmd_template": "./vcheck replay %s {path}" % pid,
        "engine": "vcheck",
        "level_claimed": {"category": cat, "text": text, "design_ref": "DESIGN.md section 3, " + ref},
        "level_note": note,
        "technique": tech,
      })
    else:
      na.append({"property_id": pid, "reason": NOT_APPLICABLE.get(pid, PENDING)})
  m = {
    "version": 1,
    "setup_cmd": "./setup.sh",
    "hooks": {"guard": "GRIST_CORE_VERIF", "enable": "no source hooks: every interposition is done by the harness at run time on the imported modules",
              "baseline_off_cmd": "cd /repo && /venv/bin/python -m pytest -ra -q -p no:cacheprovider --timeout=900 --continue-on-collection-errors",
              "source_commits": [], "add_only": True},
    "engines": [{"name": "vcheck", "path": "vcheck", "serves_properties": sorted(CHECKS),
                 "kind_free_text": "driver; engines E1 CrossHair units, E2 z3 AllSAT over the real engine, E3 symlite z3/cvc5 proxies, E4 finite-table SMT (DESIGN.md section 2)"}],
    "checks": checks,
    "not_applicable": na,
    "notes": "See DESIGN.md. Exit codes: 0 held / known findings only, 1 replayed unlisted violation, 3 harness error.",
  }
  out = os.path.join(HERE, "MANIFEST.json")
  with open(out, "w") as f:
    json.dump(m, f, indent=1)
  try:
    import jsonschema
    jsonschema.validate(m, json.load(open("/root/.vp/MANIFEST.schema.json")))
    print("MANIFEST valid:", len(checks), "checks,", len(na), "not applicable")
  except ImportError:
    print("jsonschema not available; written without validation")

if __name__ == "__main__":
  main()
