#!/usr/bin/env python3
"""Regenerates /verif/MANIFEST.json from the table below and validates it against the schema."""
import json, os, sys
HERE = os.path.dirname(os.path.dirname(os.path.abspath(__file__)))

E2 = "E2-enum: z3 AllSAT over action-template holes with read-set cube blocking; each cube = one native run of the real engine; final unsat certifies coverage of the bounded space"
E1 = "E1: CrossHair (z3) symbolic execution of the real functions on typed symbolic arguments, per-obligation exhaustion of all paths within stated bounds, reachability twin per obligation, native replay of counterexamples"
E3 = "E3: the real arithmetic kernels executed on z3-backed numbers (lib/symlite.py): path-by-path symbolic execution, negated property unsat per path; integer datetime model validated differentially"
E4 = "E4: finite-table equivalence as a z3 String-theory query generated from both sources"

def e2(text, note, ref):
  return ("exploration", E2, text + " Exhaustive within the stated pools when the evidence says exhaustive=true; says nothing outside them.", note, ref)

def e1(text, note, ref):
  return ("other", E1, text, note, ref)

E1E = ("E1+enum: CrossHair (z3) symbolic execution of the real functions for the typed symbolic obligations (per-obligation exhaustion of all paths within the "
       "stated bounds, reachability twin, native replay); obligations whose arguments are realised anyway (text handed to C parsers, catalogue indices) are "
       "decided by the z3 AllSAT loop over their finite argument domains with native calls of the same harness functions (final unsat = domain covered)")

def e1e(text, note, ref):
  return ("other", E1E, text, note, ref)

def en(text, note, ref):
  return ("exploration", "E2-enum on unit functions: z3 AllSAT over the finite argument domains of each obligation (cube blocking, final unsat = domain covered); every "
          "model is one native call of the real functions; counterexamples replayed in a fresh process", text, note, ref)

BND = "fixtures <= 3 user tables / <= 4 rows; pools of names/types/values/formulas; friendly_traceback stand-in; encoded-cell equality"
CHECKS = {
  "C01": e2("Every bundle in a bounded template space (1 action med pools on 6 fixtures; 2-action bundles with micro pools) runs on the real engine; the returned undo is applied and all tables incl. metadata must equal the pre-state; histories are undone in reverse.", BND, "C01"),
  "C02": e2("Same bundle space; every stored action since InitNewDoc is replayed into the repository's TableDataSet interpreter, which must equal the engine after every bundle.", BND + "; replica = sandbox/grist/table_data_set.py", "C02"),
  "C03": e2("Same bundle space; after undo, ApplyDocActions(stored) must reproduce the post-bundle snapshot.", BND, "C03"),
  "C04": e2("Bundle holes plus the crash point (target, index j, before/after) are solver variables; all j < J enumerated (J measured per bundle); natural failures included; after a raise: snapshot unchanged, schema consistent, Calculate silent.", BND + "; one fault per run at doc-action boundaries / rebuild_usercode", "C04"),
  "C05": e2("Edit histories (1 action; 2-action histories with micro pools incl. conditional lookup formulas and duplicate-key payloads) compared after every step with a fresh engine loaded without formula results.", BND + "; error cells compared as 'is an error'", "C05"),
  "C06": e2("Same histories replayed on a second engine whose work-item order is the k-th permutation (k is a hole); user tables must be equal. The stored actions emitted under the permuted order, replayed into TableDataSet, must reproduce that engine's state.", BND + "; 5 (quick) / 23 (thorough) permutation indices", "C06"),
  "C07": e2("After every history step: fetch -> encode -> marshal -> main._decode_db_value -> fresh engine load + Calculate: no stored actions, identical snapshot. Data columns (incl. stored error cells of trigger-formula columns) are compared exactly, formula columns with errors as errors.", BND + "; SQLite reduced to marshal of non-primitive cells", "C07"),
  "C08": e2("Same bundle space incl. rejected bundles; after success and after rollback build_schema(metadata)==engine.schema, unique (table,colId), no orphan column records. Also after the undo of every successful bundle, after the rollback of a failed undo, and after every schema-affecting action followed by an always-failing action.", BND, "C08"),
  "C09": e2("Invariant after every successful bundle on fixtures views/summary/twoway: every metadata Ref/RefList resolves, fields match their section's table, one metadata record + raw section per user table, helper columns still used.", BND, "C09"),
  "C10": e2("Invariant after every successful bundle: no Ref/RefList cell refers to a row the bundle removed; removal-only bundles leave each RefList = old list minus removed ids (None if empty).", BND, "C10"),
  "C11": e2("Invariant on fixture twoway after every successful bundle: reverse-linked columns are symmetric.", BND + "; data<->formula switches of linked columns excluded", "C11"),
  "C12": e2("Invariant after every successful bundle: each summary table == recomputed group-by of its source (keys, uniqueness, groups ascending, no empty groups).", BND + "; Date keys by calendar day; error-valued keys not judged", "C12"),
  "C13": e2("60 lookupRecords/lookupOne formulas (4 key shapes x 10 order specs) x 3 probes compared with filter + stable sort, before and after an edit; cell contents are holes. A fifth and sixth key shape use an Any-typed column holding unhashable values and a formula key column that can become an error; edits include ReplaceTableData.", "<= 4 rows; value pools; NaN and incomparable values excluded", "C13"),
  "C14": e1("find.lt/le/gt/ge/eq (one column asc/desc; two columns X,-Y; mixed int/None/str values) and PREVIOUS/NEXT/RANK with group_by on symbolic column contents, unbounded integer probes and current row; linear-scan oracle; all four obligations confirmed over all paths in the quick tier.", "stand-in table object; rows <= 3 / 3 / 2 quick, 4 / 4 / 3 thorough; cell values 0..3", "C14"),
  "C15": e2("Counter-style trigger formulas on fixture trigger; updates of 1-2 columns on 1-2 rows, adds with explicit values, schema changes; compared with a fires/does-not-fire model.", "3 rows; values pool of 4; 7 trigger configurations", "C15"),
  "C16": e2("27 formula shapes x 8 entities x 14 new names x 3 rename paths: formula values unchanged, only NAME/STRING tokens rewritten. Each rename is also judged as the second step of a history (an earlier rename / retargeted reference in its own bundle); a data-only table reached through $ref.col chains only.", "programs enumerated (finite grammar); solver = completeness bookkeeping", "C16"),
  "C17": en("process_renames with the ACL / dropdown / trigger collectors on a bounded predicate grammar (9 shapes x 17 x 17 atoms), 6 rename scenarios, 5 new names: parsed(new) == old tree with exactly the matching references renamed; unparsable text untouched. Engine level: a document with ACL rules in 3 orders, resources, a user-attribute lookup column, a dropdown and a trigger condition after RenameColumn / RenameTable / metadata updates (108 cases).", "text is realised at ast.parse, so the grammar is enumerated instead of symbolic; engine-level wiring not covered here", "C17"),
  "C18": e2("All 512 dependency graphs over 3 formula columns x all 6 schedules (+ lookup variant): terminates, CircularRefError exactly on self-dependent cells, normal values elsewhere; a run that does not return is a violation. Each graph is re-judged after a second bundle that gives one column new references (quick: clears them) and after a data edit.", "3 columns quick, 4 thorough (time-capped); 2 rows", "C18"),
  "C19": e2("75 formula texts x 2 placements x payloads: other columns unchanged, engine keeps working; for texts an independent tokenize-based translation compiles, values equal exec() of that translation.", "programs enumerated; f-strings and side-effect texts: isolation only", "C19"),
  "C20": ("other", E3 + "; plus  Dense neighbourhoods: two rows 1..4 ulps apart (+ a third), batches of 1..6 (12) rows at the upper / lower / middle position." + E2, "(a) QF_FPBV lemmas over all doubles for get_range/prevfloat/nextfloat run on FP proxies; (b) prepare_inserts on catalogue (+) ulps lists against the four clauses; (c) position columns distinct and finite on engine runs.", "lists <= 3; keys <= 2; existing positions < 2^53; count = 1 lemma quick, 2 thorough", "C20"),
  "C21": e1e("pick_col_ident / pick_table_ident / pick_col_ident_list on names of length <= 2 (3) over a 16-symbol alphabet incl. non-ASCII, 4 avoid sets: valid, unused case-insensitively, identity on valid unused names.", "alphabet and avoid sets bounded; the single-name obligations are symbolic (confirmed over all paths); pick_col_ident_list over 3 names is enumerated", "C21"),
  "C22": e1e("Every usertypes type x input kind: total, lands in the type/alt-text/same error, idempotent. Symbolic: ints, bool/None, rationals, strs (len <= 1; 2 thorough), lists. Enumerated: all strings of <= 2 characters over 13 interesting characters, boundary ints, special floats, numeric/date/JSON-looking strings, lists and tuples of <= 2 items, dates, special objects, Blob.", "per-kind obligations; type index realised; symbolic str/list obligations are counterexample search (not exhausted)", "C22"),
  "C23": e2("All ordered pairs of 12 column types on 5 columns with 2 symbolic cell contents from a pool: cells == new type's conversion of the old raw values; no other data cell changes. Numbers -> Text are also compared with an independently written reference of the documented formatting rule.", "fixture basic (+ twoway thorough); pool of 13 values", "C23"),
  "C24": e1e("encode_object: encoded form marshal-safe (exact builtin types; marshal.dumps succeeds on concrete runs) and encode(decode(encode(v))) == encode(v). Symbolic and exhausted: every int within 2 of the 32-bit range, every str of len <= 5 (8), bool/None, lists/tuples of <= 3 ints/None, lists of strs, dicts of ints. Counterexample search: ints beyond 32 bits, floats, mixed containers. Enumerated: 54 special values bare and inside 4 containers, boundary ints. Engine level: 56 formulas' values (records, record sets read back from reference-list cells, lookups, containers, odd objects) through the replies main.py builds.", "containers len <= 3, depth <= 2 (+ one 3000-deep and one recursive list)", "C24"),
  "C25": e1e("JSON-reading migrations (found by source scan) run on stored JSON values of every shape from a catalogue (scalars, lists, objects, malformed text; enumerated) and, in the thorough tier, on a symbolic JSON value through a json.loads stub: total; plus create_migrations from every start version 0..SCHEMA_VERSION reaching the current schema.", "7 scenarios; one user table", "C25"),
  "C26": e2("Bundles of 1-3 actions from a pool of 16 temp-id actions vs a reference interpretation of temporary ids; undefined negative reference values must be rejected without trace.", "two tables; bundle length <= 3", "C26"),
  "C27": e2("(existing rows, action, id list of length <= 3 from a pool of 7) for AddRecord/BulkAddRecord/ReplaceTableData: returned ids == created rows, distinct, automatic ids greater than existing; invalid requests rejected without change.", "4 existing-row sets", "C27"),
  "C28": e2("BulkAddOrUpdateRecord/AddOrUpdateRecord on 3 table contents x require/col_values/options pools vs a 40-line reference upsert. Require lists include value-equal keys of different spelling (1 / 1.0 / True).", "lists <= 2", "C28"),
  "C29": e2("8 read-only calls x tables x columns x rows x 20 autocomplete texts on a restored document with a side-effecting formula: snapshot unchanged, next Calculate silent. The call follows one of 6 prior bundles (add, update, removal, ...); one formula's side effect (lookupOrAddDerived) is followed by an error.", "fixture views + lookupOrAddDerived formula", "C29"),
  "C31": e2("Record-edit bundles on documents with formulas and summary tables; direct flags checked against the property's clauses. In bundles of record edits no schema action (conversion of an empty, explicitly typed column while data is entered) may be direct.", BND, "C31"),
  "C32": en("parse_file on grids written by the real csv module: rectangular <= 3x3 over 6 cell values, ragged shapes (k <= 3 rows of width w1 then rows of widths w2, w3), and the 100-row header-sample boundary: equal column lengths, one entry per data row, every non-empty cell at its place.", "widths <= 3; whitespace-only cells count as empty; the importer's regular expressions cannot be followed on symbolic strings, so cells are enumerated", "C32"),
  "C33": e1e("import_json.dumps with 6 include/exclude options: equal column lengths, rows per item, Ref ids in range, every non-null scalar exactly once. Symbolic: flat objects (20 key-set shapes, unbounded int / short str / null values), top-level scalar lists and single scalars. Enumerated: 1-2 rows out of 13 nested-object shapes and 8 array shapes x options. Records in which one key is an object in one record and an array in another are reconstructed from the produced tables alone and compared with the input.", "keys from 4; rows <= 2; a key is an object in every row or in none", "C33"),
  "C34": ("other", E3, "ts_to_dt/dt_to_ts round trip, date round trip and 'local time gets an offset in use' for ALL integer timestamps |ts| <= 9e9 s, per zone (62 zones quick, all 594 thorough): one obligation per (zone, property), unsat on every path. Instants where the integer model and the real code disagree are evaluated on the real code directly.", "integer-microsecond datetime model; zones enumerated", "C34"),
  "C35": ("other", E3, "Schedule.series on symbolic integer start/end for 30+ fixed-length-unit specs x counts 0..3(4) vs the reference occurrence set as an integer formula; 24 invalid specs raise ValueError.", "month/year units and tz-aware starts outside the claim", "C35"),
  "C36": e1("treeview.fix_indents on symbolic indent lists (len <= 4 quick / 5 thorough, unbounded values) and removal flags: valid tree, never deeper, exactly the violating pages change.", "list length bounded", "C36"),
  "C37": e1e("Replacer / Combiner / nested Replacer: output == direct application; mapped-back patches cover the same source characters; spanning patches refused. Symbolic text (len <= 3 over 'ab$'; 4 thorough), patches and offsets; the Combiner and Replacer-over-Replacer spaces are also enumerated completely for texts one character shorter.", "replacement len <= 1 (2 thorough); zero-width deletion boundary ambiguity accepted", "C37"),
  "C38": ("other", E4, "schema.py/gen_js_schema.py/usertypes defaults vs schema.ts/gristTypes.ts as z3 String->String functions; exists-key-with-different-image query per table (5 tables) + byte comparison with the generator output.", "finite tables; regex readers of the .ts files", "C38"),
  "C39": e2("RenameChoices on (Choice cells, ChoiceList cells, filter text, column, rename map) cubes: exactly the mapped values renamed simultaneously in cells and that column's filters, everything else unchanged.", "2 symbolic rows + a removed row; 11 maps; 5 filters", "C39"),
  "C40": e1("444 predicate expressions (depth <= 2) x symbolic values of $a,$b,user.x (unbounded ints), $c (bool), $s (str len <= 2): parse tree JSON-serialisable and evaluates like Python; 39 non-subset texts raise SyntaxError.", "expression index realised; Python node semantics", "C40"),
  "C41": e2("fetch_table(query) on (cells of 2 columns, query lists incl. unhashable values, flags) cubes vs a naive filter. Queries on the row id after removals and re-adds.", "3 rows; pools of 6/5 cells", "C41"),
}
NOT_APPLICABLE = {
  "C30": "The quantified variable is CPython's per-process hash seed, fixed before repository code runs; set/dict iteration order cannot be made a solver variable by executing /repo's functions symbolically. Cross-process diffing is sampling, a different technique.",
}
PENDING = "check not built yet in this session (see DESIGN.md section 3 for the planned solver-based obligation); not claimed until it exists"

def main():
  props = [json.loads(l) for l in open(os.path.join(HERE, "properties.jsonl"))]
  checks = []
  na = []
  for p in props:
    pid = p["id"]
    if pid in CHECKS:
      cat, tech, text, note, ref = CHECKS[pid]
      checks.append({
        "property_id": pid,
        "quick_cmd": "./vcheck %s --tier quick" % pid,
        "thorough_cmd": "./vcheck %s --tier thorough" % pid,
        "evidence_file": "evidence/%s.json" % pid,
        "replay_cmd_template": "./vcheck replay %s {path}" % pid,
        "engine": "vcheck",
        "level_claimed": {"category": cat, "text": text, "design_ref": "DESIGN.md section 3, " + ref},
        "level_note": note,
        "technique": tech,
      })
    else:
      na.append({"property_id": pid, "reason": NOT_APPLICABLE.get(pid, PENDING)})
  m = {
    "version": 1,
    "setup_cmd": "./setup.sh",
    "hooks": {"guard": "GRIST_CORE_VERIF", "enable": "no source hooks: every interposition is done by the harness at run time on the imported modules",
              "baseline_off_cmd": "cd /repo && /venv/bin/python -m pytest -ra -q -p no:cacheprovider --timeout=900 --continue-on-collection-errors",
              "source_commits": [], "add_only": True},
    "engines": [{"name": "vcheck", "path": "vcheck", "serves_properties": sorted(CHECKS),
                 "kind_free_text": "driver; engines E1 CrossHair units, E2 z3 AllSAT over the real engine, E3 symlite z3/cvc5 proxies, E4 finite-table SMT (DESIGN.md section 2)"}],
    "checks": checks,
    "not_applicable": na,
    "notes": "See DESIGN.md. Exit codes: 0 held / known findings only, 1 replayed unlisted violation, 3 harness error.",
  }
  out = os.path.join(HERE, "MANIFEST.json")
  with open(out, "w") as f:
    json.dump(m, f, indent=1)
  try:
    import jsonschema
    jsonschema.validate(m, json.load(open("/root/.vp/MANIFEST.schema.json")))
    print("MANIFEST valid:", len(checks), "checks,", len(na), "not applicable")
  except ImportError:
    print("jsonschema not available; written without validation")

if __name__ == "__main__":
  main()
