#!/usr/bin/env python3
"""Writes seeded/<id>/meta.json from the sub-agent's notes.md / demo.py docstring and from seeded/RESULTS.json
(what tools/seedtest.sh reported when the patch was applied to /repo)."""
import json, os, re, glob
HERE = os.path.dirname(os.path.dirname(os.path.abspath(__file__)))
res = json.load(open(os.path.join(HERE, "seeded", "RESULTS.json")))
MANUAL = {
  "C19": ("codebuilder._multiline_string_nodes skips every child node whose lineno equals its end_lineno - which is also true (None == None) for nodes "
          "without a position: comprehension, arguments, match_case, withitem - so multi-line string literals below them keep the function-body indentation",
          "a multi-line string literal inside a comprehension, a lambda / def default, a match case or a with item"),
  "C23": ("usertypes.Text.do_convert tests `value < 2 ** 53` instead of `abs(value) < 2 ** 53`: whole floats <= -2**53 are written as long integer digit strings",
          "a Numeric (or Any) cell holding a whole number <= -2**53 whose column is changed to Text"),
}
suites = {}
sp = os.path.join(HERE, "seeded", "SUITES.txt")
if os.path.exists(sp):
  for ln in open(sp):
    if " pinned: " in ln:
      k, rest = ln.split(" pinned: ", 1)
      pin, sh = rest.split(" | shim failures: ")
      suites[k.strip()] = (pin.strip(), sorted(x for x in sh.strip().split(",") if x))
BASE8 = sorted(["test_csv_encoding_detection_greek", "test_excel_strange_dates", "test_make_formula_body", "test_formula_errors", "test_missing_all_attribute",
                "test_missing_all_iteration", "test_make_module_text", "test_traceback_available_for_trigger_formula"])
props = {json.loads(l)["id"]: json.loads(l) for l in open(os.path.join(HERE, "properties.jsonl"))}


def bullets(text):
  out, cur = [], None
  for ln in text.split("\n"):
    if re.match(r"\s*[-*] ", ln):
      if cur:
        out.append(cur)
      cur = ln.strip()[2:]
    elif cur is not None and ln.strip() and not ln.startswith("#"):
      cur += " " + ln.strip()
    elif cur is not None and not ln.strip():
      out.append(cur); cur = None
  if cur:
    out.append(cur)
  return out


for d in sorted(glob.glob(os.path.join(HERE, "seeded", "C*"))):
  pid = os.path.basename(d)
  notes = open(os.path.join(d, "notes.md")).read() if os.path.exists(os.path.join(d, "notes.md")) else ""
  if not notes:
    m = re.search(r'"""(.*?)"""', open(os.path.join(d, "demo.py")).read(), re.S)
    notes = m.group(1) if m else ""
  bl = bullets(notes)
  change = next((b for b in bl if re.match(r"\**change", b, re.I)), bl[0] if bl else notes.strip()[:400])
  needs = next((b for b in bl if re.search(r"need|circumstance|manifest|trigger|when it shows|requires", b[:60], re.I)), "")
  if pid in MANUAL:
    change, needs = MANUAL[pid]
  patch = open(os.path.join(d, "patch.diff")).read()
  files = re.findall(r"^\+\+\+ b/(\S+)", patch, re.M)
  r = res.get(pid, {})
  meta = {
    "property_id": pid, "property_title": props[pid]["title"], "breaks": props[pid]["statement"][:300],
    "files_changed": files, "change": change[:900], "needs_to_manifest": needs[:1200],
    "note": r.get("note", ""),
    "origin": "fresh sub-agent given only the property text and a scratch worktree of /repo (nothing from /verif)",
    "confirmed": {"demo_exit_unpatched": r.get("demo_unpatched"), "demo_exit_patched": r.get("demo_patched"),
                  "pinned_suite_with_patch": (suites[pid][0] + " (re-run here in a scratch worktree with the patch applied)") if pid in suites else "158 passed (agent's report)",
                  "standin_suite_with_patch": (("exactly the 8 baseline failures" if suites[pid][1] == BASE8 else "failures: %s" % suites[pid][1]) + " (re-run here)") if pid in suites else "8 baseline failures (agent's report)",
                  "how": "tools/seedtest.sh: demo.py on /repo, git -C /repo apply patch.diff, demo.py again, ./vcheck %s --tier quick, git -C /repo checkout -- ." % pid},
    "check": {"cmd": "./vcheck %s --tier quick" % pid, "exit_with_patch": r.get("check_exit"), "violation_lines": r.get("violations"),
              "caught": r.get("check_exit") == 1, "first_report": r.get("first", ""), "caught_before_strengthening": r.get("caught_before"),
              "strengthening": r.get("strengthening", "")},
  }
  with open(os.path.join(d, "meta.json"), "w") as f:
    json.dump(meta, f, indent=1, ensure_ascii=False)
print("wrote", len(glob.glob(os.path.join(HERE, "seeded", "C*", "meta.json"))), "meta.json files")
