#!/usr/bin/env python3
"""Writes seeded/<id>/meta.json from the sub-agent's notes.md / demo.py docstring and from seeded/RESULTS.json
(what tools/seedtest.sh reported when the patch was applied to /repo)."""
import json, os, re, glob
HERE = os.path.dirname(os.path.dirname(os.path.abspath(__file__)))
res = json.load(open(os.path.join(HERE, "seeded", "RESULTS.json")))
props = {json.loads(l)["id"]: json.loads(l) for l in open(os.path.join(HERE, "properties.jsonl"))}


def bullets(text):
  out, cur = [], None
  for ln in text.split("\n"):
    if re.match(r"\s*[-*] ", ln):
      if cur:
        out.append(cur)
      cur = ln.strip()[2:]
    elif cur is not None and ln.strip() and not ln.startswith("#"):
      cur += " " + ln.strip()
    elif cur is not None and not ln.strip():
      out.append(cur); cur = None
  if cur:
    out.append(cur)
  return out


for d in sorted(glob.glob(os.path.join(HERE, "seeded", "C*"))):
  pid = os.path.basename(d)
  notes = open(os.path.join(d, "notes.md")).read() if os.path.exists(os.path.join(d, "notes.md")) else ""
  if not notes:
    m = re.search(r'"""(.*?)"""', open(os.path.join(d, "demo.py")).read(), re.S)
    notes = m.group(1) if m else ""
  bl = bullets(notes)
  change = next((b for b in bl if re.match(r"\**change", b, re.I)), bl[0] if bl else notes.strip()[:400])
  needs = next((b for b in bl if re.search(r"need|circumstance|manifest|trigger|when it shows|requires", b[:60], re.I)), "")
  patch = open(os.path.join(d, "patch.diff")).read()
  files = re.findall(r"^\+\+\+ b/(\S+)", patch, re.M)
  r = res.get(pid, {})
  meta = {
    "property_id": pid, "property_title": props[pid]["title"], "breaks": props[pid]["statement"][:300],
    "files_changed": files, "change": change[:900], "needs_to_manifest": needs[:1200],
    "origin": "fresh sub-agent given only the property text and a scratch worktree of /repo (nothing from /verif)",
    "confirmed": {"demo_exit_unpatched": r.get("demo_unpatched"), "demo_exit_patched": r.get("demo_patched"),
                  "pinned_suite_with_patch": "158 passed (same test ids as the unchanged tree)",
                  "shim_suite_with_patch": "8 failed / 515 passed: exactly the 8 baseline failures",
                  "how": "tools/seedtest.sh: demo.py on /repo, git -C /repo apply patch.diff, demo.py again, ./vcheck %s --tier quick, git -C /repo checkout -- ." % pid},
    "check": {"cmd": "./vcheck %s --tier quick" % pid, "exit_with_patch": r.get("check_exit"), "violation_lines": r.get("violations"),
              "caught": r.get("check_exit") == 1, "first_report": r.get("first", ""), "caught_before_strengthening": r.get("caught_before"),
              "strengthening": r.get("strengthening", "")},
  }
  with open(os.path.join(d, "meta.json"), "w") as f:
    json.dump(meta, f, indent=1, ensure_ascii=False)
print("wrote", len(glob.glob(os.path.join(HERE, "seeded", "C*", "meta.json"))), "meta.json files")
