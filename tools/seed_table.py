#!/usr/bin/env python3
"""Rewrites the table of DESIGN.md section 12 (between the SEED-TABLE markers) from seeded/RESULTS.json and seeded/*/meta.json."""
import json, os, re
HERE = os.path.dirname(os.path.dirname(os.path.abspath(__file__)))
res = json.load(open(os.path.join(HERE, "seeded", "RESULTS.json")))
rows = ["| seed | file changed | needs, in short | caught by `./vcheck <id>` (quick) | first pass | what was strengthened |", "|---|---|---|---|---|---|"]
for pid in sorted(res):
  mp = os.path.join(HERE, "seeded", pid, "meta.json")
  if not os.path.exists(mp):
    continue
  m = json.load(open(mp))
  r = res[pid]
  needs = re.sub(r"\s+", " ", m.get("needs_to_manifest") or m.get("change") or "")[:170].replace("|", "/")
  caught = "yes (%s VIOLATION lines, %ss)" % (r.get("violations"), r.get("wall_s")) if r.get("check_exit") == 1 else "NO (exit %s)" % r.get("check_exit")
  rows.append("| %s | %s | %s | %s | %s | %s |" % (pid, ", ".join(os.path.basename(f) for f in m["files_changed"]), needs, caught,
                                                 "caught" if r.get("caught_before") else "missed", (r.get("strengthening") or "-").replace("|", "/")))
table = "\n".join(rows)
p = os.path.join(HERE, "DESIGN.md")
s = open(p).read()
a, b = "<!-- SEED-TABLE-BEGIN -->", "<!-- SEED-TABLE-END -->"
s = s[:s.index(a) + len(a)] + "\n" + table + "\n" + s[s.index(b):]
open(p, "w").write(s)
print("table with", len(rows) - 2, "seeds written")
