#!/bin/bash
# usage: tools/seedtest.sh <seed dir containing patch.diff and demo.py> <property id> [tier]
# Applies the seeded change to /repo, runs the demonstration and the property's check, and always
# restores /repo afterwards.  Prints a one-line verdict.
S="$1"; PID="$2"; TIER="${3:-quick}"
cd /repo || exit 2
if ! git diff --quiet; then echo "REPO DIRTY, refusing"; exit 2; fi
cd /repo/sandbox/grist
DEMO="$S/demo.py"; [ -f "$S/demo_after_fix.py" ] && DEMO="$S/demo_after_fix.py"
PYTHONPATH=/verif/shims /venv/bin/python "$DEMO" >/dev/null 2>&1; D0=$?
if ! git -C /repo apply "$S/patch.diff"; then echo "SEED $PID: patch does not apply"; exit 2; fi
PYTHONPATH=/verif/shims /venv/bin/python "$DEMO" >/dev/null 2>&1; D1=$?
cd /verif
T0=$(date +%s)
./vcheck "$PID" --tier "$TIER" > /tmp/seedtest.$PID.out 2>&1; RC=$?
T1=$(date +%s)
git -C /repo checkout -- .
echo "SEED $PID demo_unpatched=$D0 demo_patched=$D1 check_exit=$RC wall=$((T1-T0))s  $(grep -c '^VIOLATION' /tmp/seedtest.$PID.out) violation lines"
grep -m3 -A1 '^VIOLATION' /tmp/seedtest.$PID.out | cut -c1-300
FIRST=$(grep -m1 -A1 '^VIOLATION' /tmp/seedtest.$PID.out | tail -1 | cut -c1-400)
python3 - "$PID" "$D0" "$D1" "$RC" "$(grep -c '^VIOLATION' /tmp/seedtest.$PID.out)" "$((T1-T0))" "$FIRST" <<'PYEOF'
import json, sys, os
pid, d0, d1, rc, nv, wall, first = sys.argv[1:8]
p = "/verif/seeded/RESULTS.json"
res = json.load(open(p)) if os.path.exists(p) else {}
old = res.get(pid, {})
old.update({"demo_unpatched": int(d0), "demo_patched": int(d1), "check_exit": int(rc), "violations": int(nv), "wall_s": int(wall), "first": first.strip()})
res[pid] = old
json.dump(res, open(p, "w"), indent=1, sort_keys=True)
PYEOF
